#!/usr/bin/env python3
"""Orchestrator: `python3 check.py Cnn [--tier quick|thorough]`.

Builds the rustc facts from /repo's current working tree, runs the property's rule pack,
applies /verif/known_findings.json (exact stable keys only), writes /verif/evidence/Cnn.json
and prints the verdict lines.  Exit 0: every claimed clause held (known findings excepted);
exit 1: at least one `VIOLATION property=Cnn replay=<path>` line; exit 2: CHECKER-ERROR
(front end or self-test failure; nothing is claimed either way).
"""
import argparse
import importlib
import json
import os
import sys
import time
import traceback

VERIF = os.path.dirname(os.path.abspath(__file__))
sys.path.insert(0, VERIF)

from epbd import facts as F            # noqa: E402
from rules import common               # noqa: E402


def load_known():
    p = os.path.join(VERIF, "known_findings.json")
    if not os.path.exists(p):
        return []
    with open(p) as fh:
        return json.load(fh).get("findings", [])


def main():
    ap = argparse.ArgumentParser()
    ap.add_argument("prop")
    ap.add_argument("--tier", default=os.environ.get("VERIF_TIER", "quick"))
    ap.add_argument("--replay", default=None)
    ap.add_argument("--verbose", "-v", action="store_true")
    args = ap.parse_args()
    prop = args.prop.upper()
    tier = args.tier if args.tier in ("quick", "thorough") else "quick"
    try:
        seed = int(os.environ.get("VERIF_SEED", "0"))
    except ValueError:
        seed = 0
    t0 = time.time()
    EVDIR = os.environ.get("EPBD_EVIDENCE_DIR") or os.path.join(VERIF, "evidence")
    ev_path = os.path.join(EVDIR, "%s.json" % prop)
    os.makedirs(os.path.dirname(ev_path), exist_ok=True)

    try:
        facts_dir, binfo = F.build_facts("dev")
    except F.BuildError as e:
        print("CHECKER-ERROR: %s" % e)
        print((e.info.get("cargo_output") or "")[-2000:])
        return 2
    infos = {"dev": binfo}
    ctx = common.Ctx(facts_dir, tier=tier, seed=seed, build_info=binfo)
    if tier == "thorough":
        try:
            rdir, rinfo = F.build_facts("release")
            infos["release"] = rinfo
            ctx.release_world_dir = rdir
        except F.BuildError as e:
            print("CHECKER-ERROR: release profile: %s" % e)
            return 2

    try:
        mod = importlib.import_module("rules.%s" % prop.lower())
    except ImportError:
        print("CHECKER-ERROR: no rule pack for %s" % prop)
        return 2
    rep = common.Report(prop)
    import signal

    def _timeout(_s, _f):
        raise RuntimeError("rule pack exceeded its time budget")
    signal.signal(signal.SIGALRM, _timeout)
    signal.alarm(int(os.environ.get("EPBD_TIME_BUDGET", "900")))
    try:
        mod.run(ctx, rep)
    except common.AnchorMissing as e:
        rep.violated("anchor/%s" % e, "public anchor '%s' must exist" % e,
                     why="the public API the property is stated on was not found")
    except Exception:
        print("CHECKER-ERROR: rule pack crashed")
        traceback.print_exc()
        return 2
    signal.alarm(0)
    release_stats = None
    if tier == "thorough" and not rep.errors:
        # the same pack on the release profile (panic = "abort", no overflow checks, release cfgs)
        ctx2 = common.Ctx(ctx.release_world_dir, tier=tier, seed=seed, build_info=infos.get("release"))
        rep2 = common.Report(prop)
        signal.alarm(int(os.environ.get("EPBD_TIME_BUDGET", "900")))
        try:
            mod.run(ctx2, rep2)
        except common.AnchorMissing as e:
            rep2.violated("anchor/%s" % e, "public anchor '%s' must exist" % e,
                          why="the public API the property is stated on was not found (release profile)")
        except Exception:
            print("CHECKER-ERROR: rule pack crashed on the release profile")
            traceback.print_exc()
            return 2
        signal.alarm(0)
        rep.errors.extend(rep2.errors)
        dev_bad = set(o.key for o in rep.obligations if o.status != "discharged")
        extra = [o for o in rep2.obligations if o.status != "discharged" and o.key not in dev_bad]
        for o in extra:
            o.key = "release:" + o.key
            rep.obligations.append(o)
        release_stats = {"obligations": len(rep2.obligations),
                         "discharged": sum(1 for o in rep2.obligations if o.status == "discharged"),
                         "release_only_violations": len(extra)}
    selfval = None
    if tier == "thorough" and not rep.errors and os.environ.get("EPBD_SELFVAL", "1") != "0":
        # sensitivity of this very check on today's tree: hand-written and independently seeded breaking
        # changes of this property, each applied to a scratch copy of /repo (never to /repo), must be reported;
        # behaviour-preserving variants must stay silent.  Recorded in the evidence; never a VIOLATION.
        import subprocess
        import tempfile
        outp = tempfile.mktemp(prefix="epbd_selfval_", suffix=".json")
        try:
            subprocess.run([sys.executable, os.path.join(VERIF, "tools", "battery.py"), "-j", "6", "--seeded", "--out", outp, prop.lower()],
                           stdout=subprocess.DEVNULL, stderr=subprocess.DEVNULL, timeout=3300,
                           env=dict(os.environ, EPBD_SELFVAL="0", VERIF_TIER="quick"))
            res = json.load(open(outp)) if os.path.exists(outp) else {}
        except Exception as ex:          # noqa
            res = {"error": {"status": str(ex)[:200]}}
        finally:
            if os.path.exists(outp):
                os.remove(outp)
        selfval = {"entries": len(res),
                   "breaking_reported": sorted(k for k, v in res.items() if v.get("status") == "caught"),
                   "breaking_not_reported_by_this_check": sorted(k for k, v in res.items() if v.get("status") == "MISSED"),
                   "benign_silent": sorted(k for k, v in res.items() if str(v.get("status")).startswith("silent")),
                   "benign_false_alarm": sorted(k for k, v in res.items() if v.get("status") == "FALSE-ALARM"),
                   "other": dict((k, v.get("status")) for k, v in res.items()
                                 if v.get("status") not in ("caught", "MISSED", "FALSE-ALARM") and not str(v.get("status")).startswith("silent"))}
        print("self-validation: %d breaking changes reported, %d not reported by this check, %d benign silent, %d benign false alarms"
              % (len(selfval["breaking_reported"]), len(selfval["breaking_not_reported_by_this_check"]),
                 len(selfval["benign_silent"]), len(selfval["benign_false_alarm"])))
    if rep.errors:
        for e in rep.errors:
            print("CHECKER-ERROR: %s" % e)
        return 2

    known = [k for k in load_known() if k.get("property") == prop]
    known_keys = dict((k["key"], k) for k in known if k.get("status", "known") == "known")
    bad = [o for o in rep.obligations if o.status != "discharged"]
    viol = []
    seen_known = set()
    for o in bad:
        k0 = o.key[len("release:"):] if o.key.startswith("release:") else o.key
        if k0 in known_keys:
            seen_known.add(k0)
        else:
            viol.append(o)
    for k in sorted(seen_known):
        print("KNOWN-FINDING: property=%s %s %s" % (prop, k, known_keys[k].get("what", "")))
    n = 0
    shown = viol[:25]
    if len(viol) > len(shown):
        print("(%d violations; the first %d are listed)" % (len(viol), len(shown)))
    for o in shown:
        n += 1
        rp = os.path.join(EVDIR, "%s.violation-%d.json" % (prop, n))
        with open(rp, "w") as fh:
            json.dump({"property": prop, "obligation": o.to_json(),
                       "replay_cmd": "python3 check.py %s --tier %s" % (prop, tier)}, fh, indent=1)
        print("VIOLATION property=%s replay=%s" % (prop, rp))
        print("  rule: %s" % o.key)
        print("  clause: %s" % o.clause)
        if o.construct:
            print("  construct: %s" % o.construct)
        if o.why:
            print("  why: %s" % o.why)
    # stale violation files from earlier runs
    i = n + 1
    while True:
        rp = os.path.join(EVDIR, "%s.violation-%d.json" % (prop, i))
        if not os.path.exists(rp):
            break
        os.remove(rp)
        i += 1

    total = len(rep.obligations)
    disch = sum(1 for o in rep.obligations if o.status == "discharged")
    nontriv = len(set(o.key for o in rep.obligations if o.nontrivial))
    samples = []
    for o in rep.obligations:
        if o.derivation and len(samples) < 4:
            samples.append(o.to_json())
    for o in bad[:6]:
        samples.append(o.to_json())
    if not samples:
        samples = [o.to_json() for o in rep.obligations[:3]]
    evidence = {
        "property_id": prop,
        "tier": tier,
        "seed": seed,
        "level": "other",
        "coverage": {
            "explanation": rep.explanation,
            "rule": rep.rule,
            "obligations": total,
            "discharged": disch,
            "evaluations": max(total, 1),
            "distinct_nontrivial": max(nontriv, 0),
            "samples": samples,
            "analysed": rep.analysed,
            "instance_floors": dict((k, {"measured": v[0], "floor": v[1]}) for k, v in rep.floors.items()),
            "known_findings_matched": sorted(seen_known),
            "front_end": infos,
            "release_profile_run": release_stats,
            "self_validation": selfval,
            "exhaustive": False,
        },
        "assumptions": rep.assumptions,
        "wall_s": round(time.time() - t0, 2),
        "violations": len(viol),
    }
    with open(ev_path, "w") as fh:
        json.dump(evidence, fh, indent=1, default=str)
    if args.verbose:
        for o in rep.obligations:
            print("%-11s %s" % (o.status, o.key))
    print("%s: %d obligations, %d discharged, %d known findings, %d violations (%.1fs)"
          % (prop, total, disch, len(seen_known), len(viol), time.time() - t0))
    return 1 if viol else 0


if __name__ == "__main__":
    sys.exit(main())
