"""Index over one fact file (one crate): bodies, types, ADTs, impls, templates."""
import re


class Program(object):
    def __init__(self, facts, other=None):
        """facts: the crate's fact dict.  other: Program of the library when this is the bin
        (so calls into `cteepbd::...` from the binary can be inlined)."""
        self.facts = facts
        self.kind = facts["crate_kind"]
        self.types = facts["types"]
        self.bodies = {}
        self.bodies_by_path = {}
        for b in facts["bodies"]:
            self.bodies[b["def"]] = b
            self.bodies_by_path.setdefault(b["path"], []).append(b)
        self.adts = {}
        for a in facts["adts"]:
            self.adts[a["path"]] = a
            self.adts[a["def"]] = a
        self.impls = facts["impls"]
        self.templates = facts["fmt_templates"]
        self.tmpl_by_callsite = {}
        for t in self.templates:
            self.tmpl_by_callsite.setdefault(t["callsite"], []).append(t)
            self.tmpl_by_callsite.setdefault(t["loc"], []).append(t)
        self.other = other
        self._impl_index = None
        self._str_cache = {}

    # -- types ---------------------------------------------------------------------------
    def ty(self, tid):
        return self.types[tid]

    def ty_str(self, tid):
        return self.types[tid]["s"]

    def peel_refs(self, tid):
        t = self.types[tid]
        while t["k"] == "ref":
            tid = t["t"]
            t = self.types[tid]
        return tid

    def is_hand_written(self, body):
        """Bodies not produced by a macro/derive expansion."""
        return "mac" not in body

    def adt_of_type(self, tid):
        t = self.types[self.peel_refs(tid)]
        if t["k"] == "adt":
            a = self.adts.get(t["def"])
            if a is None and self.other is not None:
                a = self.other.adts.get(t["def"])
            return a
        return None

    def find_adt(self, path):
        a = self.adts.get(path)
        if a is None and self.other is not None:
            a = self.other.adts.get(path)
            if a is None and path.startswith("cteepbd::"):
                a = self.other.adts.get(path[len("cteepbd::"):])
        return a

    def fieldless_enum_variants(self, tid):
        """If type is a local fieldless enum return [(idx,name)], else None."""
        a = self.adt_of_type(tid)
        if a is None or a["kind"] != "enum":
            return None
        if any(v["fields"] for v in a["variants"]):
            return None
        return [(v["idx"], v["name"]) for v in a["variants"]]

    # -- bodies --------------------------------------------------------------------------
    def body(self, key):
        b = self.bodies.get(key)
        if b is None and self.other is not None:
            return self.other.body(key)
        return b

    def owner_program(self, key):
        if key in self.bodies:
            return self
        if self.other is not None and key in self.other.bodies:
            return self.other
        return None

    def find_body(self, path_suffix):
        """Find a hand-written body by pretty path (exact or suffix match). Returns list."""
        out = []
        for p, bs in self.bodies_by_path.items():
            if p == path_suffix or p.endswith("::" + path_suffix):
                out.extend(bs)
        return out

    # -- impls ---------------------------------------------------------------------------
    def impl_index(self):
        """(trait path, method name) -> list of (self type id, method def key, impl)"""
        if self._impl_index is None:
            idx = {}
            for im in self.impls:
                tr = im.get("trait")
                if not tr:
                    continue
                for it in im["items"]:
                    idx.setdefault((tr, it["name"]), []).append((im["self_ty"], it["def"], im))
            self._impl_index = idx
        return self._impl_index

    def trait_defaults(self):
        out = {}
        for im in self.impls:
            if "trait_def" in im:
                for it in im["items"]:
                    if it.get("has_default"):
                        out[(im["trait_def"], it["name"])] = it["def"]
        return out


def strip(prog_body, eid):
    """Skip scope/use wrappers."""
    ex = prog_body["exprs"]
    e = ex[eid]
    while e["k"] in ("scope", "use"):
        eid = e["v"] if e["k"] == "scope" else e["src"]
        e = ex[eid]
    return eid, e


_LOC = re.compile(r"^(.*):(\d+):(\d+):(\d+):(\d+)$")


def short_loc(loc):
    m = _LOC.match(loc)
    if not m:
        return loc
    return "%s:%s" % (m.group(1), m.group(2))
