"""Convenience entry points: load facts, build evaluators, evaluate public entry points."""
from . import facts as F
from . import term as tm
from .prog import Program
from .sym import Ev
from .models import Models


class World(object):
    def __init__(self, out_dir):
        lib, binf = F.load(out_dir)
        self.lib = Program(lib)
        self.bin = Program(binf, other=self.lib)
        tm.register_adts(lib["adts"])

    def ev(self, which="lib"):
        return Ev(self.lib if which == "lib" else self.bin, Models())


def symbolic_args(ev, body, prefix="in"):
    """Fresh input symbols for the parameters of a body (by parameter name)."""
    args = []
    for i, p in enumerate(body["params"]):
        name = None
        pat = p["pat"]
        if pat is not None and pat["k"] == "bind":
            name = pat["name"]
        args.append(tm.sym("%s:%s" % (prefix, name or ("arg%d" % i))))
    return args


def ok_value(r):
    """The payload of the Ok(...) a Result-valued summary ends in (else-most branch)."""
    t = r
    gates = []
    while t.op == "ite":
        gates.append(tm.not_(t.a[0]))
        t = t.a[2]
    if t.op == "adt" and t.a[0] == "Result" and t.a[1] == 0:
        return t.a[2], gates
    return None, gates


def result_cases(r):
    """Flatten a summary into [(gate list, leaf value)]."""
    out = []

    def walk(t, g):
        if t.op == "ite":
            walk(t.a[1], g + [t.a[0]])
            walk(t.a[2], g + [tm.not_(t.a[0])])
        else:
            out.append((g, t))
    walk(r, [])
    return out
