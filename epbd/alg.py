"""Linear/polynomial normal forms over the value graph (DESIGN §3.1).

Scalars and per-step vectors (lifted point-wise to a generic time step) are normalised to
polynomials with rational coefficients over *atoms*.  Identities are decided by equality of
normal forms in real arithmetic (assumption A2).  Σ over the step axis is linear.
"""
from fractions import Fraction

from . import term as tm
from .term import T, mk


class Poly(object):
    __slots__ = ("m", "_key")

    def __init__(self, m=None):
        self.m = m or {}
        self._key = None

    def key(self):
        if self._key is None:
            self._key = tuple(sorted(self.m.items()))
        return self._key

    def __eq__(self, other):
        return isinstance(other, Poly) and self.key() == other.key()

    def __ne__(self, other):
        return not self.__eq__(other)

    def __hash__(self):
        return hash(self.key())

    def is_zero(self):
        return not self.m

    def const_value(self):
        if not self.m:
            return Fraction(0)
        if len(self.m) == 1 and () in self.m:
            return self.m[()]
        return None

    def atoms(self):
        s = set()
        for mono in self.m:
            for a, _p in mono:
                s.add(a)
        return s


def const(c):
    c = Fraction(c)
    return Poly({(): c}) if c != 0 else Poly()


def padd(a, b, sign=1):
    m = dict(a.m)
    for k, v in b.m.items():
        nv = m.get(k, 0) + sign * v
        if nv == 0:
            m.pop(k, None)
        else:
            m[k] = nv
    return Poly(m)


IND = set()          # ids of indicator atoms (0/1 valued: idempotent under multiplication)
_NEXT_ATOM = [0]


def mono_mul(x, y):
    d = dict(x)
    for a, p in y:
        np_ = d.get(a, 0) + p
        if np_ == 0:
            d.pop(a, None)
        else:
            if a in IND and np_ > 1:
                np_ = 1
            d[a] = np_
    return tuple(sorted(d.items()))


def pmul(a, b):
    m = {}
    for k1, v1 in a.m.items():
        for k2, v2 in b.m.items():
            k = mono_mul(k1, k2)
            nv = m.get(k, 0) + v1 * v2
            if nv == 0:
                m.pop(k, None)
            else:
                m[k] = nv
    return Poly(m)


def pscale(a, c):
    c = Fraction(c)
    if c == 0:
        return Poly()
    return Poly(dict((k, v * c) for k, v in a.m.items()))


class _Position(object):
    """Environment value of the index variable of a comprehension over 0..n (not a number: only `v[i]` reads it)."""
    def __repr__(self):
        return "<position>"


POSITION = _Position()


class Atom(object):
    __slots__ = ("id", "key", "perstep", "desc", "kind", "parts", "term")

    def __init__(self, id_, key, perstep, kind, parts, term, desc):
        self.id = id_
        self.key = key
        self.perstep = perstep
        self.kind = kind          # 'term' | 'elt' | 'min' | 'max' | 'ite' | 'sumt' | 'poly' | 'abs' | 'cmp'
        self.parts = parts        # sub-polys / condition keys
        self.term = term          # originating term when there is one
        self.desc = desc


class Algebra(object):
    def __init__(self):
        self.atoms = {}
        self.by_key = {}
        self._sc = {}
        self._pw = {}
        self.notes = []
        self._pids = {}
        self._pid_poly = []
        self._natoms = {}
        self.nonneg_oracle = None      # fn(term) -> bool; None: assumed (recorded)
        self.assumed_nonneg = set()
        self.gate_simplified = 0

    def pid(self, p):
        """Small integer naming a polynomial (keeps atom keys flat)."""
        k = p.key()
        i = self._pids.get(k)
        if i is None:
            i = len(self._pid_poly)
            self._pids[k] = i
            self._pid_poly.append(p)
        return i

    def poly_of_pid(self, i):
        return self._pid_poly[i]

    # ------------------------------------------------------------------ atoms
    def atom(self, key, perstep, kind, parts=(), term=None, desc=None):
        a = self.by_key.get(key)
        if a is None:
            _NEXT_ATOM[0] += 1
            a = Atom(_NEXT_ATOM[0], key, perstep, kind, parts, term, desc)
            self.atoms[a.id] = a
            self.by_key[key] = a
            if kind == "ind":
                IND.add(a.id)
        return Poly({((a.id, 1),): Fraction(1)})

    # ------------------------------------------------------------------ indicators
    def ind(self, c, env=None, lift=False):
        """0/1 indicator polynomial of a step-independent condition (boolean ring:
        and = product, not = 1 - x, or by De Morgan; indicator atoms are idempotent)."""
        op = c.op
        if c is tm.TRUE:
            return const(1)
        if c is tm.FALSE:
            return const(0)
        if op in ("and", "or", "not", "ite") and not env:
            n = self._natoms.get(c.id)
            if n is None:
                from .sym import _atoms
                n = len(_atoms(c))
                self._natoms[c.id] = n
            if n > 6:
                ck = ("c", c.id)
                return self.atom(("ind", ck), False, "ind", (c, ck), c)
        if op == "and":
            r = const(1)
            for x in c.a:
                r = pmul(r, self.ind(x, env, lift))
            return r
        if op == "or":
            if len(c.a) > 3:
                ck = self.cond_key(c, env, lift)
                return self.atom(("ind", ck), False, "ind", (c, ck), c)
            r = const(1)
            for x in c.a:
                r = pmul(r, padd(const(1), self.ind(x, env, lift), -1))
            return padd(const(1), r, -1)
        if op == "not":
            return padd(const(1), self.ind(c.a[0], env, lift), -1)
        if op == "ite" and len(c.a) == 3:
            ic = self.ind(c.a[0], env, lift)
            ia = self.ind(c.a[1], env, lift)
            ib = self.ind(c.a[2], env, lift)
            return padd(ib, pmul(ic, padd(ia, ib, -1)))
        cv = self.const_cond(c, env, lift)
        if cv is not None:
            return const(1 if cv else 0)
        if op == "le" and len(c.a) == 2:
            # a <= b  ==  not (b < a)
            return padd(const(1), self.ind(tm.lt(c.a[1], c.a[0]), env, lift), -1)
        ck = self.cond_key(c, env, lift)
        per = bool(env) or self.cond_perstep(c, env, lift) or _ck_perstep(self, ck)
        return self.atom(("ind", ck), per, "ind", (c, ck), c)

    def atom_of(self, poly):
        """The Atom when poly is exactly one atom with coefficient 1."""
        if len(poly.m) == 1:
            (mono, c), = poly.m.items()
            if c == 1 and len(mono) == 1 and mono[0][1] == 1:
                return self.atoms[mono[0][0]]
        return None

    def perstep_poly(self, p):
        return any(self.atoms[a].perstep for a in p.atoms())

    def inv(self, p):
        if p.is_zero():
            self.notes.append("division by literal zero")
            return self.atom(("inv0",), False, "term")
        if len(p.m) == 1:
            (mono, c), = p.m.items()
            return Poly({tuple(sorted((a, -pw_) for a, pw_ in mono)): 1 / c})
        # non-monomial denominator: an atom standing for the whole sum, with power -1
        a = self.atom(("poly", self.pid(p)), self.perstep_poly(p), "poly", (p,))
        (mono, _c), = a.m.items()
        return Poly({((mono[0][0], -1),): Fraction(1)})

    def as_poly_atom(self, p):
        """If the sum p already has a 'poly' atom (because something is divided by it),
        return that atom so that p * (1/p) cancels."""
        a = self.by_key.get(("poly", self.pid(p)))
        if a is not None:
            return Poly({((a.id, 1),): Fraction(1)})
        return None

    # ------------------------------------------------------------------ conditions
    def cond_key(self, c, env, lift):
        """Canonical key of a boolean term (comparisons are keyed by normal forms)."""
        op = c.op
        f = self.pwx if lift else self.sx
        if op in ("lt", "le", "eq") and len(c.a) == 2 and all(isinstance(x, T) for x in c.a):
            try:
                a = f(c.a[0], env)
                b = f(c.a[1], env)
                if isinstance(a, Poly) and isinstance(b, Poly):
                    d = padd(a, b, -1)
                    if op == "eq":
                        k1, k2 = self.pid(d), self.pid(pscale(d, -1))
                        return ("eq0", min(k1, k2))
                    return (op + "0", self.pid(d))
            except NotScalar:
                pass
        if op in ("and", "or"):
            return (op,) + tuple(self.cond_key(x, env, lift) for x in c.a)
        if op == "not":
            return ("not", self.cond_key(c.a[0], env, lift))
        if env and tm.maxbv(c) > 0:
            return ("bound", c.id, tuple(sorted((k, _ek(v)) for k, v in env.items())))
        return ("c", c.id)

    def cond_perstep(self, c, env, lift):
        if env:
            return True
        if not lift:
            return False
        for t in tm.subterms(c):
            if t.op in ("vop", "vsumover", "rep"):
                return True
        return False

    # ------------------------------------------------------------------ scalars
    def scalar(self, t):
        return self.sx(t, None)

    def sx(self, t, env):
        """Scalar expression (possibly under lambda environment env)."""
        if not env:
            r = self._sc.get(t.id)
            if r is None:
                r = self._sx(t, None)
                self._sc[t.id] = r
            return r
        return self._sx(t, env)

    def _sx(self, t, env):
        op = t.op
        if op == "num":
            return const(Fraction(t.a[0]).limit_denominator(10 ** 9)
                         if isinstance(t.a[0], float) else Fraction(t.a[0]))
        if op == "add":
            return padd(self.sx(t.a[0], env), self.sx(t.a[1], env))
        if op == "sub":
            return padd(self.sx(t.a[0], env), self.sx(t.a[1], env), -1)
        if op == "neg":
            return pscale(self.sx(t.a[0], env), -1)
        if op == "mul":
            return pmul(self.sx(t.a[0], env), self.sx(t.a[1], env))
        if op == "div":
            num = self.sx(t.a[0], env)
            den = self.sx(t.a[1], env)
            return pmul(num, self.inv(den))
        if op == "bv":
            v = env.get((t.a[0], t.a[1])) if env else None
            if v is None:
                raise NotScalar("unbound variable")
            if not isinstance(v, Poly):
                raise NotScalar("tuple used as scalar")
            return v
        if op == "tproj":
            v = self.sxs(t.a[0], env)
            if isinstance(v, tuple):
                return v[t.a[1]]
            return self.opaque(t, env)
        if op == "ite":
            return self.ite(t, env, False)
        if op in ("min", "max"):
            a = self.sx(t.a[0], env)
            b = self.sx(t.a[1], env)
            if a == b:
                return a
            ks = tuple(sorted([self.pid(a), self.pid(b)]))
            return self.atom((op, ks), self.perstep_poly(a) or self.perstep_poly(b), op, (a, b))
        if op == "abs":
            a = self.sx(t.a[0], env)
            return self.atom(("abs", self.pid(a)), self.perstep_poly(a), "abs", (a,))
        if op == "sum":
            return self.sum_of(t.a[0], env)
        if op == "sumover" and len(t.a) == 2 and isinstance(t.a[1], tm.T) and t.a[1].op == "lam" \
                and t.a[0].op in ("iter", "map", "zip") and self._numeric_vector(t.a[0]):
            # Σ_{x in v} f(x) over a vector of numbers (the closed form of `fold(0, |a, x| a + f(x))`): Σ_t of the mapped vector
            try:
                return self.sum_of(tm.mk("map", t.a[0], t.a[1]), env)
            except NotScalar:
                pass
        if op == "cast":
            return self.sx(t.a[1], env)
        if op == "let":
            return self.atom(("let", t.id), False, "let", (t.a[0],), t)
        if op == "index" and env and isinstance(t.a[1], tm.T) and t.a[1].op == "bv" \
                and env.get((t.a[1].a[0], t.a[1].a[1])) is POSITION:
            # v[i] inside a comprehension over 0..n: the per-step element of v
            return self.pwx(t.a[0], dict((k, v) for k, v in env.items() if v is not POSITION) or None)
        return self.opaque(t, env)

    def _numeric_vector(self, it):
        """an iterator over a per-step vector of numbers (not over a list of records)"""
        x = it
        while x.op in ("map", "zip", "iter"):
            if x.op == "iter":
                v = x.a[0]
                while v.op == "ite":
                    v = v.a[1]
                return v.op in ("vop", "vsumover", "rep", "vneg") or (v.op == "proj" and v.a[3] == "values") \
                    or (v.op == "collect" and v.a[0].op == "map")
            x = x.a[0]
        return False

    def sxs(self, t, env):
        """Structured value: Poly or tuple of Polys."""
        if t.op == "bv":
            v = env.get((t.a[0], t.a[1])) if env else None
            if v is None:
                raise NotScalar("unbound")
            return v
        if t.op == "tuple":
            return tuple(self.sxs(x, env) for x in t.a)
        if t.op == "tproj":
            v = self.sxs(t.a[0], env)
            if isinstance(v, tuple):
                return v[t.a[1]]
        return self.sx(t, env)

    def opaque(self, t, env):
        if env and tm.maxbv(t) > 0:
            # depends on a bound variable: key on the instantiated environment
            ek = tuple(sorted((k, _ek(v)) for k, v in env.items()))
            return self.atom(("bterm", t.id, ek), True, "term", (), t)
        return self.atom(("t", t.id), False, "term", (), t)

    def const_cond(self, c, env, lift):
        """Decide a comparison whose two sides differ by a constant."""
        if c.op in ("lt", "le", "eq") and len(c.a) == 2:
            f = self.pwx if lift else self.sx
            try:
                d = padd(f(c.a[0], env), f(c.a[1], env), -1)
            except NotScalar:
                return None
            v = d.const_value()
            if v is not None:
                return {"lt": v < 0, "le": v <= 0, "eq": v == 0}[c.op]
        if c.op == "not":
            r = self.const_cond(c.a[0], env, lift)
            return None if r is None else (not r)
        return None

    def ite(self, t, env, lift):
        c, a, b = t.a
        # ite(c1 && c2, A, ite(c1, B, A)) = ite(c1, ite(c2, A, B), A): the shape an early `return A` inside `if c1 { if c2 ..`
        # takes once the exits are merged
        if c.op == "and" and b.op == "ite" and b.a[2] is a and any(x is b.a[0] for x in c.a):
            rest = tm.and_(*[x for x in c.a if x is not b.a[0]])
            return self.ite(tm.mk("ite", b.a[0], tm.mk("ite", rest, a, b.a[1]), a), env, lift)
        f = self.pwx if lift else self.sx
        cv = self.const_cond(c, env, lift)
        if cv is True:
            return f(a, env)
        if cv is False:
            return f(b, env)
        pa = f(a, env)
        pb = f(b, env)
        if pa == pb:
            return pa
        r = self.gate_simplify(c, pa, pb, env, lift, a, b)
        if r is not None:
            return r
        lm = self.load_match(c, pa, pb, env, lift)
        if lm is not None:
            return lm
        # ite(c, lmatch(y), 1) = lmatch([c]*y), since the load-matching function is 1 at 0 (the same function written
        # with the guard on the use outside instead of inside its argument)
        for pl, po in ((pa, pb), (pb, pa)):
            if po.const_value() == 1:
                al = self.atom_of(pl)
                if al is not None and al.kind == "lmatch":
                    ic = self.ind(c, env, lift) if pl is pa else padd(const(1), self.ind(c, env, lift), -1)
                    px = pmul(ic, al.parts[0])
                    return self.atom(("lmatch", self.pid(px)), True, "lmatch", (px,))
        # b + [c]*(a - b)   (indicator atoms are idempotent; per-step when the condition is)
        return padd(pb, pmul(self.ind(c, env, lift), padd(pa, pb, -1)))

    def load_match(self, c, pa, pb, env, lift):
        """R7: ite(x <= 0, 1, (x + 1/x - 1)/(x + 1/x)) is one atom with range [1/2, 1]."""
        if pa.const_value() != 1 or c.op != "le" or len(c.a) != 2 or c.a[1] is not tm.ZERO:
            return None
        f = self.pwx if lift else self.sx
        try:
            px = f(c.a[0], env)
        except NotScalar:
            return None
        if px.is_zero():
            return None
        s_ = padd(px, self.inv(px))
        want = pmul(padd(s_, const(-1)), self.inv(s_))
        if want != pb:
            return None
        return self.atom(("lmatch", self.pid(px)), True, "lmatch", (px,))

    def ite_atom(self, c, ck, pa, pb, per):
        if pa == pb:
            return pa
        return self.atom(("ite", ck, self.pid(pa), self.pid(pb)), per, "ite", (c, pa, pb, ck))

    def gate_simplify(self, c, pa, pb, env, lift, ta=None, tb=None):
        """ite(S == 0, A, B) = B when A and B agree once every addend of S is set to zero.
        S must be a sum of non-negative quantities (A1; checked by `nonneg_oracle` when set):
        then S == 0 forces each addend to 0."""
        zero_side = None
        x = None
        if c.op == "eq":
            l, r = c.a
            if l is tm.ZERO:
                x, zero_side = r, "then"
            elif r is tm.ZERO:
                x, zero_side = l, "then"
        elif c.op == "not" and c.a[0].op == "eq":
            l, r = c.a[0].a
            if l is tm.ZERO:
                x, zero_side = r, "else"
            elif r is tm.ZERO:
                x, zero_side = l, "else"
        if x is None or ta is None or tb is None or env:
            return None
        parts = term_addends(x)
        if parts is None:
            return None
        for p in parts:
            if self.nonneg_oracle is not None:
                if not self.nonneg_oracle(p):
                    return None
            else:
                self.assumed_nonneg.add(p.id)
        m = dict((p, tm.ZERO) for p in parts)
        f = self.pwx if lift else self.sx
        try:
            za = f(tm.subst(ta, m), env)
            zb = f(tm.subst(tb, m), env)
        except NotScalar:
            return None
        if za != zb:
            return None
        self.gate_simplified += 1
        return pb if zero_side == "then" else pa

    def zero_atoms(self, p, ats):
        m = {}
        for mono, c in p.m.items():
            hit = False
            for a, pw_ in mono:
                if a in ats:
                    if pw_ < 0:
                        return None
                    hit = True
            if not hit:
                m[mono] = c
        return Poly(m)

    # ------------------------------------------------------------------ vectors (point-wise)
    def pw(self, v):
        return self.pwx(v, None)

    def pwx(self, v, env):
        """Point-wise value of a vector term at a generic step (scalars pass through)."""
        if not env:
            r = self._pw.get(v.id)
            if r is None:
                r = self._pwx(v, None)
                self._pw[v.id] = r
            return r
        return self._pwx(v, env)

    def _pwx(self, v, env):
        op = v.op
        if op == "vop":
            o, a, b = v.a
            pa, pb = self.pwx(a, env), self.pwx(b, env)
            if o == "add":
                return padd(pa, pb)
            if o == "sub":
                return padd(pa, pb, -1)
            if o == "mul":
                return pmul(pa, pb)
            if o == "div":
                return pmul(pa, self.inv(pb))
            if o in ("min", "max"):
                if pa == pb:
                    return pa
                ks = tuple(sorted([self.pid(pa), self.pid(pb)]))
                return self.atom((o, ks), True, o, (pa, pb))
        if op == "vneg":
            return pscale(self.pwx(v.a[0], env), -1)
        if op == "rep":
            return self.sx(v.a[0], env)
        if op == "seq" and len(v.a) == 0:
            return const(0)          # empty vector: every reduction over it is 0
        if op == "ite":
            return self.ite(v, env, True)
        if op == "collect":
            return self.pw_iter(v.a[0], env)
        if op in ("vsumover",):
            return self.atom(("elt", v.id), True, "elt", (), v)
        if op in ("num", "add", "sub", "mul", "div", "neg", "min", "max", "abs", "sum", "bv", "tproj", "sumover"):
            return self.sx(v, env)
        return self.atom(("elt", v.id), True, "elt", (), v)

    def pw_iter(self, it, env):
        """Element of an iterator term at a generic position."""
        v = self.pw_iter_s(it, env)
        if isinstance(v, tuple):
            raise NotScalar("vector of tuples")
        return v

    def pw_iter_s(self, it, env):
        op = it.op
        if op == "iter":
            return self.pwx(it.a[0], env)
        if op == "zip":
            return (self.pw_iter_s(it.a[0], env), self.pw_iter_s(it.a[1], env))
        if op == "map" and it.a[0].op == "iter" and it.a[0].a[0].op == "adt" and it.a[0].a[0].a[0] == "Range" \
                and len(it.a[0].a[0].a) == 4 and it.a[0].a[0].a[2] is tm.ZERO:
            # (0..n).map(|i| body): the element at a generic position, with `v[i]` the element of v at that position
            l = it.a[1]
            level, n, body = l.a
            e2 = dict(env or {})
            e2[(level, 0)] = POSITION
            return self.pwbody(body, e2)
        if op == "map":
            x = self.pw_iter_s(it.a[0], env)
            l = it.a[1]
            level, n, body = l.a
            e2 = dict(env or {})
            e2[(level, 0)] = x
            return self.pwbody(body, e2)
        return self.atom(("eltit", it.id), True, "elt", (), it)

    def pwbody(self, body, env):
        if body.op == "tuple":
            return tuple(self.pwbody(x, env) for x in body.a)
        if body.op == "ite":
            return self.ite(body, env, False)
        return self.sx(body, env)

    # ------------------------------------------------------------------ sums over the step axis
    def sum_of(self, it, env):
        """Σ_t of the elements of an iterator/vector term."""
        if it.op == "iter":
            p = self.pwx(it.a[0], env)
        else:
            p = self.pw_iter(it, env)
        return self.sumt(p)

    def sumt(self, p):
        out = Poly()
        for mono, c in p.m.items():
            step = tuple((a, pw_) for a, pw_ in mono if self.atoms[a].perstep)
            rest = tuple((a, pw_) for a, pw_ in mono if not self.atoms[a].perstep)
            if not step:
                # Σ_t of a constant: n_steps * c (kept as an explicit atom)
                n = self.atom(("nsteps",), False, "term")
                term = pmul(Poly({rest: c}), n)
            else:
                s = self.sum_atom(Poly({step: Fraction(1)}))
                term = pmul(Poly({rest: c}), s)
            out = padd(out, term)
        return out

    def sum_atom(self, p):
        """Σ_t p for a single per-step monomial p (pushes through ite with scalar condition)."""
        a = self.atom_of(p)
        if a is not None and a.kind == "ite":
            c, pa, pb, ck = a.parts
            if not self.cond_perstep(c, None, True) and not _has_bound(ck):
                sa, sb = self.sumt(pa), self.sumt(pb)
                if sa == sb:
                    return sa
                return self.atom(("ite", ck, self.pid(sa), self.pid(sb)), False, "ite", (c, sa, sb, ck))
        return self.atom(("sumt", self.pid(p)), False, "sumt", (p,))

    def reduce(self, p):
        """x * [x == 0] = 0: drop monomials that contain an atom together with the indicator
        that this very atom is zero."""
        out = {}
        for mono, c in p.m.items():
            d = dict(mono)
            dead = False
            for aid, pw in mono:
                a = self.atoms.get(aid)
                if a is None or a.kind != "ind":
                    continue
                ck = a.parts[1]
                if isinstance(ck, tuple) and ck and ck[0] == "eq0" and isinstance(ck[1], int):
                    q = self.poly_of_pid(ck[1])
                    if len(q.m) == 1:
                        (qm, qc), = q.m.items()
                        if len(qm) == 1 and qm[0][1] == 1 and d.get(qm[0][0], 0) > 0:
                            dead = True
                            break
            if not dead:
                out[mono] = c
        return Poly(out)

    def pmin(self, pa, pb, perstep=True):
        """min of two polynomials as the same atom the extractor would produce."""
        if pa == pb:
            return pa
        ks = tuple(sorted([self.pid(pa), self.pid(pb)]))
        return self.atom(("min", ks), perstep or self.perstep_poly(pa) or self.perstep_poly(pb), "min", (pa, pb))

    def assume_conditions(self, p, conds):
        """p with the indicator atoms of the given condition terms set to 1 (case assumption)."""
        from .order import psubst_all
        for c in conds:
            ip = self.ind(c)
            a = self.atom_of(ip)
            if a is not None:
                p = psubst_all(p, a.id, const(1))
        return p

    # ------------------------------------------------------------------ R4: Σ shares = 1
    def cancel(self, p):
        """(Σ_j m*q_j) * Q^-1 = m when Q is the atom standing for the sum Σ_j q_j (rule R4)."""
        changed = True
        rounds = 0
        while changed and rounds < 6:
            changed = False
            rounds += 1
            for aid in list(p.atoms()):
                a = self.atoms[aid]
                if a.kind != "poly":
                    continue
                q = a.parts[0]
                groups = {}
                other = {}
                for mono, c in p.m.items():
                    d = dict(mono)
                    if d.get(aid) == -1:
                        rest = tuple((x, w) for x, w in mono if x != aid)
                        groups[rest] = c
                    else:
                        other[mono] = c
                if not groups:
                    continue
                g = Poly(groups)
                m = self.divide(g, q)
                if m is not None:
                    p = padd(Poly(other), m)
                    changed = True
                    break
        return p

    def divide(self, g, q):
        """g / q when g = q * r for a polynomial r (term by term on the leading monomial)."""
        r = Poly()
        rem = g
        qk = sorted(q.m.items(), key=lambda x: str(x[0]))
        lead_m, lead_c = qk[0]
        for _ in range(len(g.m) + 2):
            if rem.is_zero():
                return r
            done = False
            for mono, c in sorted(rem.m.items(), key=lambda x: str(x[0])):
                d = dict(mono)
                ok = True
                for x, w in lead_m:
                    if d.get(x, 0) < w and x not in IND:
                        ok = False
                        break
                    if x in IND and x not in d:
                        ok = False
                        break
                if not ok:
                    continue
                quo = dict(d)
                for x, w in lead_m:
                    if x in IND:
                        continue       # idempotent: keep the indicator
                    nw = quo[x] - w
                    if nw == 0:
                        del quo[x]
                    else:
                        quo[x] = nw
                t = Poly({tuple(sorted(quo.items())): c / lead_c})
                rem = padd(rem, pmul(q, t), -1)
                r = padd(r, t)
                done = True
                break
            if not done:
                return None
        return r if rem.is_zero() else None

    def admit_thresholds(self, p, limit):
        """Set to 1 the per-step indicators [c < X] with a positive literal c <= limit (the
        absolute noise thresholds the property text admits; inputs are 0 or >= 0.01, A1)."""
        n = 0
        for aid in list(p.atoms()):
            a = self.atoms.get(aid)
            if a is None or a.kind != "ind":
                continue
            ck = a.parts[1]
            if isinstance(ck, tuple) and ck and ck[0] == "lt0" and isinstance(ck[1], int):
                d = self.poly_of_pid(ck[1])
                cst = d.m.get((), 0)
                if 0 < cst <= Fraction(limit).limit_denominator(10 ** 6) and all(
                        v < 0 for k, v in d.m.items() if k != ()):
                    from .order import psubst_all
                    p = psubst_all(p, aid, const(1))
                    n += 1
        return p, n

    # ------------------------------------------------------------------ printing
    def show(self, p, depth=3, limit=6):
        if p.is_zero():
            return "0"
        parts = []
        n = 0
        for mono, c in p.m.items():
            n += 1
            if n > limit:
                parts.append("… (%d terms)" % len(p.m))
                break
            fs = []
            for a, pw_ in mono:
                s = self.show_atom(self.atoms[a], depth)
                fs.append(s if pw_ == 1 else "%s^%d" % (s, pw_))
            coef = "" if c == 1 and fs else str(c)
            parts.append("*".join(([coef] if coef else []) + fs))
        return " + ".join(parts)

    def show_atom(self, a, depth=3):
        if depth <= 0:
            return "a%d" % a.id
        k = a.kind
        if k in ("term", "elt"):
            if a.term is not None:
                return ("elt(%s)" if k == "elt" else "%s") % tm.show(a.term, 3)
            return str(a.key)
        if k in ("min", "max"):
            return "%s(%s, %s)" % (k, self.show(a.parts[0], depth - 1), self.show(a.parts[1], depth - 1))
        if k == "ite":
            return "ite(%s, %s, %s)" % (tm.show(a.parts[0], 2), self.show(a.parts[1], depth - 1),
                                        self.show(a.parts[2], depth - 1))
        if k == "sumt":
            return "Σt[%s]" % self.show(a.parts[0], depth - 1)
        if k == "poly":
            return "(%s)" % self.show(a.parts[0], depth - 1)
        if k == "abs":
            return "|%s|" % self.show(a.parts[0], depth - 1)
        if k == "ind":
            return "[%s]" % tm.show(a.parts[0], 2)
        if k == "lmatch":
            return "f_match(%s)" % self.show(a.parts[0], depth - 1)
        if k == "let":
            return "let#%d" % a.id
        return "a%d" % a.id

    # ------------------------------------------------------------------ queries
    def input_syms(self, p, acc=None, seen=None):
        """Free input symbols a polynomial depends on (through all its atoms)."""
        if acc is None:
            acc = set()
            seen = set()
        for a in p.atoms():
            self.atom_syms(self.atoms[a], acc, seen)
        return acc

    def atom_syms(self, a, acc, seen):
        if a.id in seen:
            return
        seen.add(a.id)
        if a.term is not None:
            acc |= set(tm.free_syms(a.term))
        for part in a.parts:
            if isinstance(part, Poly):
                self.input_syms(part, acc, seen)
            elif isinstance(part, T):
                acc |= set(tm.free_syms(part))


def term_addends(x):
    """Addends of a term-level sum with positive signs only, else None."""
    if x.op == "add":
        a, b = term_addends(x.a[0]), term_addends(x.a[1])
        if a is None or b is None:
            return None
        return a + b
    if x.op in ("sub", "neg"):
        return None
    return [x]


class NotScalar(Exception):
    pass


def _ek(v):
    if isinstance(v, Poly):
        return hash(v.key())
    if isinstance(v, tuple):
        return tuple(_ek(x) for x in v)
    return ("?",)


def _ck_perstep(A, ck):
    """A comparison key is per-step when the polynomial it compares is."""
    if isinstance(ck, tuple) and ck:
        if ck[0] in ("lt0", "le0", "eq0") and isinstance(ck[1], int):
            return A.perstep_poly(A.poly_of_pid(ck[1]))
        if ck[0] in ("and", "or", "not"):
            return any(_ck_perstep(A, x) for x in ck[1:])
        if ck[0] == "bound":
            return True
    return False


def _has_bound(ck):
    if isinstance(ck, tuple):
        if ck and ck[0] == "bound":
            return True
        return any(_has_bound(x) for x in ck)
    return False
