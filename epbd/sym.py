"""Symbolic evaluator: typed THIR (from the rustc front end) -> value graph (DESIGN §2.2).

Crate-local callees are inlined (the crate has no recursion), closures are called or reified as
lambda terms, control flow is folded into `ite` terms, finite enum-keyed maps/sets are kept as
explicit records and iterated by unrolling, loops over unbounded collections are evaluated once
with symbolic state and element (a `fold`), and every effect (panic, exit, print, early return)
is recorded with its gate.  No path is enumerated and no solver is called.
"""
from . import term as tm
from .term import T, mk


class Unsupported(Exception):
    pass


class Place(object):
    __slots__ = ("cell", "path")

    def __init__(self, cell, path=()):
        self.cell = cell
        self.path = path

    def ext(self, p):
        return Place(self.cell, self.path + (p,))

    def ref(self):
        return mk("ref", self.cell, self.path)


def is_ref(v):
    return isinstance(v, T) and v.op == "ref"


def place_of_ref(v):
    return Place(v.a[0], v.a[1])


class Store(object):
    __slots__ = ("cells", "live")

    def __init__(self, cells=None, live=True):
        self.cells = cells if cells is not None else {}
        self.live = live

    def copy(self):
        return Store(dict(self.cells), self.live)


class Frame(object):
    def __init__(self, prog, body, parent=None, genv=None):
        self.prog = prog
        self.body = body
        self.exprs = body["exprs"]
        self.vars = {}
        self.parent = parent
        self.genv = genv or {}
        self.returns = []       # (gate terms tuple, value, store)
        self.loops = []         # active loop contexts
        self.pc_base = 0

    def lookup(self, var):
        f = self
        while f is not None:
            c = f.vars.get(var)
            if c is not None:
                return c
            f = f.parent
        return None


class Closure(object):
    def __init__(self, prog, body, frame, uid):
        self.prog = prog
        self.body = body
        self.frame = frame
        self.uid = uid


class LoopCtx(object):
    def __init__(self, uid):
        self.uid = uid
        self.continues = []   # (extra pc, store)
        self.breaks = []


BOTTOM = mk("bottom")


class Effect(object):
    __slots__ = ("kind", "gate", "info", "loc", "stack", "sites")

    def __init__(self, kind, gate, info, loc, stack, sites=()):
        self.kind = kind
        self.gate = gate
        self.info = info
        self.loc = loc
        self.stack = stack
        self.sites = sites

    def __repr__(self):
        return "Effect(%s @%s gate=%s info=%s)" % (self.kind, self.loc,
                                                  [tm.show(g, 4) for g in self.gate], self.info)


class Ev(object):
    def __init__(self, prog, models):
        self.prog = prog
        self.models = models
        self.store = Store()
        self.ncell = 0
        self.pc = []
        self.effects = []
        self.closures = {}
        self.nclos = 0
        self.call_stack = []
        self.call_sites = []
        self.loops_info = {}
        self.nloop = 0
        self.const_cache = {}
        self.unsupported = []
        self.max_depth = 60
        self.opaque_calls = {}
        self.cell_names = {}
        self.discover = 0          # >0 while in a loop discovery pass (effects not recorded)
        self.active_frames = []
        self._prop_cache = {}
        self._budget = 0
        self.cur_site = None
        self.opaque_defs = set()   # def keys / pretty paths summarised as uninterpreted calls (modular analysis)

    # ------------------------------------------------------------------ store
    def new_cell(self, v, name=None):
        self.ncell += 1
        c = self.ncell
        self.store.cells[c] = v
        if name:
            self.cell_names[c] = name
        return c

    def read(self, place):
        v = self.store.cells.get(place.cell)
        if v is None:
            v = mk("undef_cell", place.cell)
        for p in place.path:
            v = self.read_proj(v, p)
        return v

    def read_proj(self, v, p):
        k = p[0]
        if k == "f":
            return tm.proj(v, p[1], p[2], p[3])
        if k == "t":
            return tm.tproj(v, p[1])
        if k == "idx":
            return self.models.index_value(self, v, p[1])
        if k == "mapval":
            return self.models.map_index(self, v, p[1])
        if k == "first":
            return mk("find_val", v, p[1])
        if k == "elem":
            return mk("elem_of", v, p[1])
        raise Unsupported("read_proj %r" % (p,))

    def write(self, place, new):
        old = self.store.cells.get(place.cell)
        if old is None:
            old = mk("undef_cell", place.cell)
        self.store.cells[place.cell] = self._write(old, place.path, new)

    def _write(self, v, path, new):
        if not path:
            return new
        p = path[0]
        inner = self.read_proj(v, p)
        upd = self._write(inner, path[1:], new)
        k = p[0]
        if k == "f":
            return tm.upd(v, p[1], p[2], p[3], upd)
        if k == "t":
            return tm.tupd(v, p[1], upd)
        if k == "idx":
            return self.models.set_index(self, v, p[1], upd)
        if k == "mapval":
            return self.models.map_insert(self, v, p[1], upd)
        if k == "first":
            fv = mk("find_val", v, p[1])
            e = tm.fresh("e")
            body = tm.subst(upd, {fv: e})
            return mk("upd_first", v, p[1], tm.lam([e], body))
        raise Unsupported("write proj %r" % (p,))

    # ------------------------------------------------------------------ path condition
    def nvariants(self, path):
        if path in ("Option", "Result", "ControlFlow"):
            return 2
        a = self.prog.find_adt(path)
        if a is None:
            for p in (self.prog, self.prog.other):
                if p is None:
                    continue
                for ad in p.facts["adts"]:
                    if ad["path"].split("::")[-1] == path:
                        a = ad
                        break
        if a is not None:
            return len(a["variants"])
        return None

    def decide(self, c, depth=0):
        """True / False / None under the current path condition."""
        if c is tm.TRUE:
            return True
        if c is tm.FALSE:
            return False
        n = tm.not_(c)
        for f in self.pc:
            if f is c:
                return True
            if f is n:
                return False
        op = c.op
        if op == "isvar":
            x, path, v = c.a
            excluded = set()
            for f in self.pc:
                if f.op == "isvar" and f.a[0] is x and f.a[2] != v:
                    return False
                if f.op == "not" and f.a[0].op == "isvar" and f.a[0].a[0] is x:
                    excluded.add(f.a[0].a[2])
            if excluded:
                nv = self.nvariants(path)
                if nv is not None and len(excluded | {v}) == nv and v not in excluded:
                    return True
        elif op == "eq":
            a, b = c.a
            for f in self.pc:
                if f.op == "eq":
                    fa, fb = f.a
                    for (x, k1) in ((fa, fb), (fb, fa)):
                        for (y, k2) in ((a, b), (b, a)):
                            if x is y and tm.is_const(k1) and tm.is_const(k2) and k1 is not k2:
                                return False
        elif op == "and":
            r = True
            for x in c.a:
                d = self.decide(x, depth)
                if d is False:
                    return False
                if d is None:
                    r = None
            if r is not None:
                return r
        elif op == "or":
            r = False
            for x in c.a:
                d = self.decide(x, depth)
                if d is True:
                    return True
                if d is None:
                    r = None
            if r is not None:
                return r
        elif op == "not":
            d = self.decide(c.a[0], depth)
            if d is not None:
                return not d
        if depth == 0:
            return self.prop_decide(c)
        return None

    # -- bounded propositional reasoning over the path condition (variant exclusivity aware)
    def prop_decide(self, c):
        facts = list(self.pc) + self.implicit_facts(c)
        if not facts:
            return None
        want = set(_akey(a) for a in _atoms(c))
        if not want:
            return None
        rel = []
        pool = [(f, set(_akey(a) for a in _atoms(f))) for f in facts]
        for _round in range(2):
            rest = []
            for f, at in pool:
                if at & want:
                    rel.append(f)
                    want |= at
                else:
                    rest.append((f, at))
            pool = rest
        if not rel:
            return None
        if len(rel) > 60 or len(want) > 60:
            return None
        key = (tuple(sorted(f.id for f in rel)), c.id)
        r = self._prop_cache.get(key)
        if r is not None:
            return r[0]
        self._budget = 400
        if self.sat(rel + [c], {}) is False:
            res = False
        else:
            self._budget = 400
            if self.sat(rel + [tm.not_(c)], {}) is False:
                res = True
            else:
                res = None
        self._prop_cache[key] = (res,)
        return res

    def sat(self, forms, neg):
        """False if the conjunction is unsatisfiable, True if a model was found, None if the
        budget ran out."""
        todo = []
        for f in forms:
            if f is tm.TRUE:
                continue
            if f is tm.FALSE:
                return False
            todo.extend(_conjuncts(f))
        todo = [f for f in todo if f is not tm.TRUE]
        if any(f is tm.FALSE for f in todo):
            return False
        if not todo:
            return True
        self._budget -= 1
        if self._budget <= 0:
            return None
        # unit facts first; an arithmetic fact with embedded conditions (ite inside) is kept
        # until those conditions are decided, so that deciding them can falsify it
        atom = None
        embedded = None
        for f in todo:
            g, val0 = (f, True) if f.op != "not" else (f.a[0], False)
            if g.op in ("and", "or", "ite", "not"):
                continue
            if g.op in ("eq", "lt", "le"):
                c = _embedded_cond(g)
                if c is not None:
                    if embedded is None:
                        embedded = c
                    continue
            atom, val = g, val0
            break
        unit = atom is not None
        if atom is None and embedded is not None:
            atom, val = embedded, True
        if atom is None:
            ats = _atoms(todo[0])
            if not ats:
                return None
            atom, val = ats[0], True
        for v in ((val,) if unit else (True, False)):
            m = {atom: tm.boolean(v)}
            neg2 = neg
            if atom.op == "isvar":
                x, path, vi = atom.a
                if v:
                    for f in todo:
                        for a2 in _atoms(f):
                            if a2.op == "isvar" and a2.a[0] is x and a2.a[2] != vi:
                                m[a2] = tm.FALSE
                else:
                    neg2 = dict(neg)
                    ex = set(neg2.get(x.id, ()))
                    ex.add(vi)
                    neg2[x.id] = ex
                    nv = self.nvariants(path)
                    if nv is not None and len(ex) == nv:
                        continue       # every variant excluded: contradiction
                    if nv is not None and len(ex) == nv - 1:
                        last = [i for i in range(nv) if i not in ex][0]
                        m[tm.isvar(x, path, last)] = tm.TRUE
            cache = {}
            new = [tm.subst(f, m, cache) for f in todo]
            r = self.sat(new, neg2)
            if r is True:
                return True
            if r is None:
                return None
        return False

    def implicit_facts(self, c):
        """p(x) holds for every x drawn from collect(filter(it, p)) (index / first / find)."""
        out = []
        seen = set()
        for t in tm.subterms(c):
            if t.op in ("index", "first_val", "last_val") and t.id not in seen:
                seen.add(t.id)
                src = t.a[0]
                for lam in _filters_of(src):
                    out.extend(_conjuncts(tm.apply_lam(lam, [t])))
            if len(seen) > 8:
                break
        return out

    def assume(self, fact):
        for f in _conjuncts(fact):
            if f is not tm.TRUE:
                self.pc.append(f)

    def gate(self):
        return tuple(self.pc)

    def effect(self, kind, info, loc):
        if self.discover:
            return
        self.effects.append(Effect(kind, self.gate(), info, loc, tuple(self.call_stack), tuple(self.call_sites)))

    # ------------------------------------------------------------------ branches
    def branch(self, cond, then_fn, else_fn):
        """Evaluate two continuations under cond / not cond and merge stores and values."""
        d = self.decide(cond)
        if d is True:
            return then_fn()
        if d is False:
            return else_fn()
        s0 = self.store
        n0 = len(self.pc)
        self.store = s0.copy()
        self.assume(cond)
        n1 = len(self.pc)
        v1 = then_fn()
        g1 = self.pc[n1:]
        s1 = self.store
        del self.pc[n0:]
        self.store = s0.copy()
        self.assume(tm.not_(cond))
        n2 = len(self.pc)
        v2 = else_fn()
        g2 = self.pc[n2:]
        s2 = self.store
        del self.pc[n0:]
        if not s1.live and not s2.live:
            self.store = s1
            s1.live = False
            return BOTTOM
        if not s1.live:
            self.store = s2
            self.assume(tm.not_(cond))
            self.pc.extend(g2)
            return v2
        if not s2.live:
            self.store = s1
            self.assume(cond)
            self.pc.extend(g1)
            return v1
        self.store = self.merge(cond, s1, s2)
        if (g1 or g2) and len(g1) + len(g2) <= 8:
            # what was learnt on the surviving part of each side (e.g. after a nested early return)
            self.pc.append(tm.or_(tm.and_(cond, *g1), tm.and_(tm.not_(cond), *g2)))
        return self.vite(cond, v1, v2)

    def vite(self, c, a, b):
        if a is BOTTOM:
            return b
        if b is BOTTOM:
            return a
        return tm.ite(c, a, b)

    def merge(self, c, s1, s2):
        cells = {}
        for k, v1 in s1.cells.items():
            v2 = s2.cells.get(k)
            if v2 is None or v1 is v2:
                cells[k] = v1
            else:
                cells[k] = tm.ite(c, v1, v2)
        for k, v2 in s2.cells.items():
            if k not in cells:
                cells[k] = v2
        return Store(cells, True)

    # ------------------------------------------------------------------ calls
    def call_body(self, prog, body, args, genv=None, parent=None, name=None, site=None):
        if len(self.call_stack) > self.max_depth:
            raise Unsupported("call depth")
        fr = Frame(prog, body, parent=parent, genv=genv)
        fr.pc_base = len(self.pc)
        params = body["params"]
        # closures: first param is the closure environment
        if body["defkind"] == "Closure":
            params = params[1:]
        for p, a in zip(params, args):
            if p["pat"] is not None:
                self.bind_irrefutable(fr, p["pat"], a)
        self.call_stack.append(name or body["path"])
        self.call_sites.append(site if site is not None else self.cur_site)
        self.active_frames.append(fr)
        try:
            v = self.eval(fr, body["root"])
        finally:
            self.call_stack.pop()
            self.call_sites.pop()
            self.active_frames.pop()
        return self.finish_frame(fr, v)

    def finish_frame(self, fr, v):
        n0 = fr.pc_base
        if not fr.returns:
            del self.pc[n0:]
            return v
        tail_live = self.store.live
        tail_store = self.store
        result = v if tail_live else None
        store = tail_store if tail_live else None
        for gate, rv, rs in reversed(fr.returns):
            g = tm.and_(*gate) if gate else tm.TRUE
            if result is None:
                result, store = rv, rs
            else:
                result = self.vite(g, rv, result)
                store = self.merge(g, rs, store)
        store.live = True
        self.store = store
        del self.pc[n0:]
        return result

    def do_return(self, fr, v):
        # find the frame that owns the return (closures return from themselves)
        gate = tuple(self.pc[fr.pc_base:])
        fr.returns.append((gate, v, self.store.copy()))
        self.store.live = False
        return BOTTOM

    def genv_for(self, callee_body, prog, caller_prog, type_args, caller_genv):
        """Bind the callee's type parameters to type keys."""
        genv = {}
        gens = callee_body.get("generics", [])
        for g, tid in zip(gens, type_args):
            genv[g["n"]] = self.type_key(caller_prog, tid, caller_genv)
        return genv

    def type_key(self, prog, tid, genv):
        t = prog.types[tid]
        k = t["k"]
        if k == "ref":
            return self.type_key(prog, t["t"], genv)
        if k == "param":
            return (genv or {}).get(t["n"], "param:" + t["n"])
        if k == "adt":
            return t["def"]
        if k == "prim":
            return t["n"]
        if k == "slice":
            return "[" + self.type_key(prog, t["t"], genv) + "]"
        return "other:" + t["s"]

    def call_fn(self, fr, prog, fty, args, cx):
        """Call the function described by the fndef type entry `fty` (from `prog`)."""
        if fty["path"] in _PRIORITY_MODELS:
            return self.models.call(self, fr, prog, fty, fty["path"], args, cx)
        res = fty.get("resolved")
        target_def = None
        type_args = fty.get("args", [])
        if res is not None:
            target_def = res["def"]
            type_args = res["args"]
            path = res["path"]
        else:
            path = fty["path"]
            if fty.get("local") and not fty.get("trait"):
                target_def = fty["def"]
        genv = fr.genv if fr is not None else {}
        # trait method inside a generic body: resolve through the impl table
        if target_def is None and fty.get("trait"):
            self_key = None
            arg_keys = None
            if fty["args"]:
                self_key = self.type_key(prog, fty["args"][0], genv)
                arg_keys = [self.type_key(prog, t, genv) for t in fty["args"][1:]]
            r = self.resolve_trait_method(fty["trait"], fty["name"], self_key, arg_keys)
            if r is not None:
                target_def, dgenv = r
                body = self.prog.body(target_def)
                if body is not None:
                    oprog = self.prog.owner_program(target_def)
                    return self.call_body(oprog, body, args, genv=dgenv)
        if target_def is not None and self.opaque_defs:
            b0 = self.prog.body(target_def)
            if b0 is not None and (target_def in self.opaque_defs or b0["path"] in self.opaque_defs
                                   or any(b0["path"].endswith("::" + o) for o in self.opaque_defs)):
                return self.models.opaque_call(self, fty, "summary:" + b0["path"].split("::")[-1]
                                               if False else "summary:" + _short_path(b0["path"]), args, cx)
        if target_def is not None:
            body = self.prog.body(target_def)
            if body is not None:
                oprog = self.prog.owner_program(target_def)
                m = self.models.local_override(self, fty, body)
                if m is not None:
                    return m(self, fr, prog, fty, args, cx)
                cgenv = self.genv_for(body, oprog, prog, type_args, genv)
                # an argument that is a choice between constants of a small enum (`if c { BIOMASA } else { ... }`):
                # evaluate the callee once per constant under the choice's condition, so that the callee's own
                # matches / comparisons / filters see constants (same value, more regular terms)
                arg_tys = cx.get("arg_tys") if isinstance(cx, dict) else None
                for i, a in enumerate(args):
                    small_enum = False
                    if isinstance(a, T) and a.op == "ite" and arg_tys and i < len(arg_tys):
                        try:
                            small_enum = prog.fieldless_enum_variants(arg_tys[i]) is not None
                        except Exception:
                            small_enum = False
                    if isinstance(a, T) and a.op == "ite" and (self._enum_choice(a, 0) or small_enum) \
                            and getattr(self, "_split_depth", 0) < 6:
                        c = a.a[0]
                        self._split_depth = getattr(self, "_split_depth", 0) + 1
                        try:
                            a1 = list(args)
                            a1[i] = a.a[1]
                            a2 = list(args)
                            a2[i] = a.a[2]
                            return self.branch(c, lambda: self.call_fn(fr, prog, fty, a1, cx), lambda: self.call_fn(fr, prog, fty, a2, cx))
                        finally:
                            self._split_depth -= 1
                return self.call_body(oprog, body, args, genv=cgenv)
        return self.models.call(self, fr, prog, fty, path, args, cx)

    def _enum_choice(self, t, depth):
        """ite tree whose leaves are constants of a fieldless enum."""
        if depth > 4:
            return False
        if t.op == "ite":
            return self._enum_choice(t.a[1], depth + 1) and self._enum_choice(t.a[2], depth + 1)
        return t.op == "adt" and len(t.a) == 2 and depth > 0

    def resolve_trait_method(self, trait, name, self_key, arg_keys=None):
        """Returns (def key, genv) of the implementing method for a Self type key
        (and, when given, the keys of the trait's other type arguments)."""
        if self_key in _PRIMS and trait.split("::")[-1] in _ARITH_TRAITS:
            if arg_keys is None or all(k in _PRIMS for k in arg_keys):
                return None        # builtin arithmetic: handled by the model table
        cands = []
        for p in (self.prog, self.prog.other):
            if p is None:
                continue
            # the same trait may be spelled differently by the two crates; match on suffix
            for (tr, nm), lst in p.impl_index().items():
                if nm != name:
                    continue
                if tr == trait or tr.split("::")[-1] == trait.split("::")[-1]:
                    for (sty, mdef, im) in lst:
                        if sty < 0 or self.type_key(p, sty, {}) != self_key:
                            continue
                        if arg_keys is not None and im.get("trait_args"):
                            ik = [self.type_key(p, t, {}) for t in im["trait_args"][1:]]
                            if len(ik) == len(arg_keys) and ik != list(arg_keys):
                                continue
                        cands.append((mdef, {}))
        if cands:
            return cands[0]
        for p in (self.prog, self.prog.other):
            if p is None:
                continue
            for (tr, nm), d in p.trait_defaults().items():
                if nm == name and (tr == trait or tr.split("::")[-1] == trait.split("::")[-1]):
                    return (d, {"Self": self_key})
        return None

    def apply(self, f, args, cx=None):
        """Call a callable value (closure, fn item, lambda term)."""
        if isinstance(f, T):
            if f.op == "closure":
                c = self.closures[f.a[0]]
                return self.call_body(c.prog, c.body, args, genv=c.frame.genv, parent=c.frame)
            if f.op == "fnitem":
                prog = self.prog if f.a[0] == self.prog.kind else self.prog.other
                fty = prog.types[f.a[1]]
                fr = None
                return self.call_fn(_GenvFrame(f.a[2]), prog, fty, args, cx or {})
            if f.op == "lam":
                return tm.apply_lam(f, args)
            if f.op == "ite":
                return self.branch(f.a[0], lambda: self.apply(f.a[1], args, cx),
                                   lambda: self.apply(f.a[2], args, cx))
        return mk("apply", f, *args)

    def reify(self, f, nparams, prefix="x", elem_of=None):
        """Turn a callable into a lambda term by calling it on fresh symbols.
        `elem_of`: the iterator the (unary) callable will be applied to; its filter predicates
        are assumed for the parameter while the body is evaluated.
        Returns (lam, changed_store: bool)."""
        if isinstance(f, T) and f.op == "lam":
            return f, False
        syms = [tm.fresh(prefix) for _ in range(nparams)]
        before = dict(self.store.cells)
        n0 = len(self.pc)
        if elem_of is not None and nparams == 1:
            for fl in _filters_of(elem_of):
                self.assume(tm.apply_lam(fl, [syms[0]]))
            if elem_of.op == "iter" and elem_of.a[0].op == "adt" and elem_of.a[0].a[0] == "Range" and len(elem_of.a[0].a) == 4:
                # the elements of lo..hi are below hi
                self.assume(tm.lt(syms[0], elem_of.a[0].a[3]))
        v = self.apply(f, syms)
        del self.pc[n0:]
        changed = False
        for k, val in list(self.store.cells.items()):
            if k in before and before[k] is not val:
                changed = True
                # a captured variable is written by the callable: its value after an unknown number of
                # calls is unknown, and the callable is not a function of its argument alone
                self.store.cells[k] = tm.mk("havoc", "closure-state", tm.fresh("hv"))
        if not self.store.live:
            self.store.live = True
        if changed:
            self.nstateful = getattr(self, "nstateful", 0) + 1
            v = tm.mk("stateful", self.nstateful, v)
        return tm.lam(syms, v), changed

    # ------------------------------------------------------------------ patterns
    def bind_irrefutable(self, fr, pat, v, place=None):
        c = self.match_pat(fr, pat, v, place)
        return c

    def match_pat(self, fr, pat, v, place=None):
        """Bind variables of `pat` against value v (and its place when known).
        Returns the condition under which the pattern matches."""
        k = pat["k"]
        if k == "wild" or k == "never":
            return tm.TRUE
        if k == "bind":
            mode = pat["mode"]
            # BindingMode(No|Yes(pin, mutbl), mutbl)   (older: BindingMode(Ref(Mut), ..))
            inner = mode[len("BindingMode("):] if mode.startswith("BindingMode(") else mode
            by_ref = inner.startswith("Yes(") or inner.startswith("Ref(")
            mut_ref = False
            if by_ref:
                head = inner[: inner.index(")") + 1]
                mut_ref = "Mut" in head
            if by_ref and mut_ref and place is not None:
                val = place.ref()
            else:
                val = v
            cell = self.new_cell(val, pat["name"])
            fr.vars[pat["var"]] = cell
            if pat["sub"] is not None:
                return self.match_pat(fr, pat["sub"], v, place)
            return tm.TRUE
        if k == "deref":
            if is_ref(v):
                pl = place_of_ref(v)
                return self.match_pat(fr, pat["sub"], self.read(pl), pl)
            return self.match_pat(fr, pat["sub"], v, place)
        if k == "variant":
            path = pat["adt"]
            vidx = pat["vidx"]
            path = _norm_adt(path)
            cond = tm.isvar(v, path, vidx)
            adt = fr.prog.find_adt(pat["adt"])
            conds = [cond]
            for sp in pat["subs"]:
                name = None
                if adt is not None:
                    try:
                        name = adt["variants"][vidx]["fields"][sp["f"]]["name"]
                    except (IndexError, KeyError):
                        name = None
                fv = tm.proj(v, vidx, sp["f"], name)
                fp = place.ext(("f", vidx, sp["f"], name)) if place is not None else None
                conds.append(self.match_pat(fr, sp["p"], fv, fp))
            return tm.and_(*conds)
        if k == "leaf":
            ty = fr.prog.types[pat["ty"]]
            conds = []
            is_tuple = ty["k"] == "tuple"
            adt = fr.prog.adt_of_type(pat["ty"]) if not is_tuple else None
            for sp in pat["subs"]:
                if is_tuple:
                    fv = tm.tproj(v, sp["f"])
                    fp = place.ext(("t", sp["f"])) if place is not None else None
                else:
                    name = None
                    if adt is not None:
                        try:
                            name = adt["variants"][0]["fields"][sp["f"]]["name"]
                        except (IndexError, KeyError):
                            name = None
                    fv = tm.proj(v, 0, sp["f"], name)
                    fp = place.ext(("f", 0, sp["f"], name)) if place is not None else None
                conds.append(self.match_pat(fr, sp["p"], fv, fp))
            return tm.and_(*conds)
        if k == "const":
            c = self.pat_const(fr, pat)
            return tm.eq(v, c)
        if k == "or":
            # every alternative binds the same variables: the value bound is that of the first alternative that matches
            conds = []
            bound = []          # per alternative: {var: value}
            for p in pat["pats"]:
                before = dict(fr.vars)
                c = self.match_pat(fr, p, v, place)
                conds.append(c)
                now = {}
                for var, cell in fr.vars.items():
                    if before.get(var) != cell:
                        val = self.store.cells.get(cell)
                        if val is not None and is_ref(val):
                            val = self.read(place_of_ref(val))      # bindings of alternatives are merged by value
                        now[var] = val
                bound.append(now)
            allvars = set()
            for b in bound:
                allvars.update(b)
            for var in allvars:
                merged = tm.GARBAGE
                for c, b in reversed(list(zip(conds, bound))):
                    if var in b and b[var] is not None:
                        merged = b[var] if merged is tm.GARBAGE else tm.ite(c, b[var], merged)
                fr.vars[var] = self.new_cell(merged, self.cell_names.get(fr.vars.get(var)))
            return tm.or_(*conds)
        if k == "slice":
            pre = pat["prefix"]
            suf = pat["suffix"]
            n = len(pre) + len(suf)
            ln = self.models.len_of(self, v)
            if pat["slice"] is None:
                cond = tm.eq(ln, tm.num(n))
            else:
                cond = tm.le(tm.num(n), ln)
            conds = [cond]
            for i, sp in enumerate(pre):
                conds.append(self.match_pat(fr, sp, self.models.index_value(self, v, tm.num(i)), None))
            for i, sp in enumerate(suf):
                idx = tm.sub(ln, tm.num(len(suf) - i))
                conds.append(self.match_pat(fr, sp, self.models.index_value(self, v, idx), None))
            if pat["slice"] is not None:
                conds.append(self.match_pat(fr, pat["slice"], mk("subslice", v, len(pre), len(suf)), None))
            return tm.and_(*conds)
        if k == "range":
            return mk("in_range", v, pat["v"])
        raise Unsupported("pattern kind %s" % k)

    def pat_const(self, fr, pat):
        s = pat["v"]
        ty = fr.prog.types[pat["ty"]]
        tk = fr.prog.types[fr.prog.peel_refs(pat["ty"])]
        if tk["k"] == "prim":
            n = tk["n"]
            if n == "str":
                if s.startswith("Branch(["):
                    try:
                        inner = s[len("Branch(["):s.index("])")]
                        bs = bytes(int(x.strip().split("_")[0]) for x in inner.split(",") if x.strip())
                        return tm.string(bs.decode("utf-8"))
                    except Exception:
                        return mk("patconst", s)
                return tm.string(_unquote(s))
            if n == "bool":
                return tm.boolean(s.strip() == "true")
            if n == "char":
                return tm.char(_unquote(s))
            try:
                txt = s.strip()
                for suf in ("_i32", "_usize", "_u8", "_f32", "i32", "usize", "f32", "u8", "u32", "i64", "u64"):
                    if txt.endswith(suf):
                        txt = txt[: -len(suf)]
                        break
                return tm.num(float(txt) if "." in txt else int(txt))
            except ValueError:
                return mk("patconst", s)
        return mk("patconst", s)

    # ------------------------------------------------------------------ expressions
    def ty_kind(self, fr, tid):
        return fr.prog.types[tid]["k"]

    def eval(self, fr, eid):
        if not self.store.live:
            return BOTTOM
        e = fr.exprs[eid]
        k = e["k"]
        m = getattr(self, "e_" + k, None)
        if m is None:
            self.unsupported.append((k, e.get("loc")))
            return mk("unsupported", k, e.get("loc"))
        return m(fr, e, eid)

    def eval_lv(self, fr, eid):
        """Returns Place or a value Term for place-like expressions."""
        e = fr.exprs[eid]
        k = e["k"]
        while k in ("scope", "use"):
            eid = e["v"] if k == "scope" else e["src"]
            e = fr.exprs[eid]
            k = e["k"]
        if k == "var" or k == "upvar":
            cell = fr.lookup(e["var"])
            if cell is None:
                return mk("unbound_var", e["name"])
            return Place(cell)
        if k == "field":
            base = self.eval_lv(fr, e["lhs"])
            lty = fr.prog.types[fr.exprs[e["lhs"]]["ty"]]
            if lty["k"] == "tuple":
                p = ("t", e["f"])
            else:
                p = ("f", e["vidx"], e["f"], e.get("name"))
            if isinstance(base, Place):
                return base.ext(p)
            return self.read_proj(base, p)
        if k == "deref":
            base = self.eval_lv(fr, e["arg"])
            v = self.read(base) if isinstance(base, Place) else base
            if is_ref(v):
                return place_of_ref(v)
            if isinstance(base, Place):
                return base          # transparent shared reference / Box
            return v
        if k == "index":
            base = self.eval_lv(fr, e["lhs"])
            idx = self.eval(fr, e["index"])
            self.models.note_index(self, fr, e, base, idx)
            if isinstance(base, Place):
                return base.ext(("idx", idx))
            return self.models.index_value(self, base, idx)
        return self.eval(fr, eid)

    def e_scope(self, fr, e, eid):
        return self.eval(fr, e["v"])

    def e_use(self, fr, e, eid):
        return self.eval(fr, e["src"])

    def e_never_to_any(self, fr, e, eid):
        self.eval(fr, e["src"])
        return BOTTOM

    def e_pcoerce(self, fr, e, eid):
        v = self.eval(fr, e["src"])
        return v

    def e_cast(self, fr, e, eid):
        v = self.eval(fr, e["src"])
        sty = fr.prog.types[fr.exprs[e["src"]]["ty"]]
        dty = fr.prog.types[e["ty"]]
        if sty["s"] == dty["s"]:
            return v
        return mk("cast", dty["s"], v)

    def _place_read(self, fr, eid):
        lv = self.eval_lv(fr, eid)
        if isinstance(lv, Place):
            return self.read(lv)
        return lv

    def e_var(self, fr, e, eid):
        return self._place_read(fr, eid)

    e_upvar = e_var
    e_field = e_var
    e_index = e_var

    def e_deref(self, fr, e, eid):
        return self._place_read(fr, eid)

    def e_borrow(self, fr, e, eid):
        if e["bk"].startswith("Mut"):
            lv = self.eval_lv(fr, e["arg"])
            if isinstance(lv, Place):
                return lv.ref()
            if is_ref(lv):
                return lv
            cell = self.new_cell(lv, "tmp")
            return Place(cell).ref()
        # shared borrow: value semantics (borrowck forbids mutation while it lives);
        # a shared reborrow of a &mut keeps pointing at the place so later reads see it
        lv = self.eval_lv(fr, e["arg"])
        if isinstance(lv, Place):
            return self.read(lv)
        return lv

    def e_rawborrow(self, fr, e, eid):
        return self.e_borrow(fr, dict(e, bk="Mut"), eid)

    def e_lit(self, fr, e, eid):
        lk = e["lk"]
        v = e["v"]
        if lk == "str":
            return tm.string(v)
        if lk == "char":
            return tm.char(v)
        if lk == "bool":
            return tm.boolean(v)
        if lk == "int":
            n = int(v)
            return tm.num(-n if e["neg"] else n)
        if lk == "float":
            txt = v.replace("_", "")
            for suf in ("f32", "f64"):
                if txt.endswith(suf):
                    txt = txt[: -len(suf)]
            x = float(txt)
            return tm.num(-x if e["neg"] else x)
        if lk == "byte":
            return tm.num(int(v))
        if lk == "bytestr":
            return mk("bytestr", v)
        return mk("literal", lk, str(v))

    def e_zst(self, fr, e, eid):
        t = fr.prog.types[e["ty"]]
        if t["k"] == "fndef":
            return mk("fnitem", fr.prog.kind, e["ty"], _freeze(fr.genv))
        if t["k"] == "adt":
            return tm.adt(_norm_adt(t["path"]), 0)
        if t["k"] == "tuple":
            return tm.UNIT
        return mk("zst", t["s"])

    def e_const(self, fr, e, eid):
        key = e["def"]
        if key in self.const_cache:
            return self.const_cache[key]
        body = self.prog.body(key)
        if body is None:
            v = self.models.extern_const(self, e)
        else:
            oprog = self.prog.owner_program(key)
            saved_pc = self.pc
            self.pc = []
            try:
                v = self.call_body(oprog, body, [], genv={})
            finally:
                self.pc = saved_pc
        self.const_cache[key] = v
        return v

    def e_static(self, fr, e, eid):
        return mk("static", e["path"])

    def e_tuple(self, fr, e, eid):
        return tm.tup(*[self.eval(fr, x) for x in e["fields"]])

    def e_array(self, fr, e, eid):
        return mk("seq", *[self.eval(fr, x) for x in e["fields"]])

    def e_repeat(self, fr, e, eid):
        return mk("rep", self.eval(fr, e["v"]), mk("constexpr", e["count"]))

    def e_adt(self, fr, e, eid):
        path = _norm_adt(e["path"])
        adt = fr.prog.find_adt(e["path"])
        vidx = e["vidx"]
        given = {}
        for f in e["fields"]:
            given[f["f"]] = self.eval(fr, f["e"])
        nf = None
        if adt is not None:
            nf = len(adt["variants"][vidx]["fields"])
        else:
            nf = (max(given) + 1) if given else 0
        base = None
        if e["base"] is not None and e["base"] != "default_fields":
            base = self.eval(fr, e["base"])
        fields = []
        for i in range(nf):
            if i in given:
                fields.append(given[i])
            elif base is not None:
                name = adt["variants"][vidx]["fields"][i]["name"] if adt else None
                fields.append(tm.proj(base, vidx, i, name))
            else:
                fields.append(mk("missing_field", i))
        return tm.adt(path, vidx, *fields)

    def e_closure(self, fr, e, eid):
        body = self.prog.body(e["def"])
        if body is None:
            return mk("closure_nobody", e["def"])
        self.nclos += 1
        oprog = self.prog.owner_program(e["def"])
        self.closures[self.nclos] = Closure(oprog, body, fr, self.nclos)
        return mk("closure", self.nclos)

    _BIN = {"Add": tm.add, "Sub": tm.sub, "Mul": tm.mul, "Div": tm.div,
            "Lt": tm.lt, "Le": tm.le, "Gt": tm.gt, "Ge": tm.ge, "Eq": tm.eq, "Ne": tm.ne}

    def e_binary(self, fr, e, eid):
        a = self.eval(fr, e["lhs"])
        b = self.eval(fr, e["rhs"])
        op = e["op"]
        f = self._BIN.get(op)
        if f is not None:
            return f(a, b)
        if op == "Rem":
            return mk("rem", a, b)
        if op in ("AddWithOverflow", "SubWithOverflow", "MulWithOverflow"):
            return self._BIN[op[:3]](a, b)
        return mk("binop", op, a, b)

    def e_logical(self, fr, e, eid):
        a = self.eval(fr, e["lhs"])
        if e["op"] == "And":
            d = self.decide(a)
            if d is False:
                return tm.FALSE
            return self.branch(a, lambda: self.eval(fr, e["rhs"]), lambda: tm.FALSE)
        d = self.decide(a)
        if d is True:
            return tm.TRUE
        return self.branch(a, lambda: tm.TRUE, lambda: self.eval(fr, e["rhs"]))

    def e_unary(self, fr, e, eid):
        a = self.eval(fr, e["arg"])
        if e["op"] == "Not":
            return tm.not_(a)
        if e["op"] == "Neg":
            return tm.neg(a)
        return mk("unop", e["op"], a)

    def e_if(self, fr, e, eid):
        c = self.eval_cond(fr, e["cond"])
        if not self.store.live:
            return BOTTOM
        els = e["else"]
        return self.branch(c, lambda: self.eval(fr, e["then"]),
                           (lambda: self.eval(fr, els)) if els is not None else (lambda: tm.UNIT))

    def eval_cond(self, fr, eid):
        """Condition of an `if`; handles `let` conditions (if let) by binding."""
        _id, e = _strip(fr, eid)
        if e["k"] == "let":
            lv = self.eval_lv(fr, e["e"])
            if isinstance(lv, Place):
                v = self.read(lv)
                return self.match_pat(fr, e["pat"], v, lv)
            return self.match_pat(fr, e["pat"], lv, None)
        if e["k"] == "logical" and e["op"] == "And":
            # let chains
            a = self.eval_cond(fr, e["lhs"])
            if self.decide(a) is False:
                return tm.FALSE
            n0 = len(self.pc)
            self.pc.append(a)
            b = self.eval_cond(fr, e["rhs"])
            del self.pc[n0:]
            return tm.and_(a, b)
        return self.eval(fr, eid)

    def e_let(self, fr, e, eid):
        return self.eval_cond(fr, eid)

    def e_block(self, fr, e, eid):
        b = fr.body["blocks"][e["b"]]
        for sid in b["stmts"]:
            if not self.store.live:
                return BOTTOM
            s = fr.body["stmts"][sid]
            if s["k"] == "expr":
                self.eval(fr, s["e"])
            else:
                self.stmt_let(fr, s)
        if not self.store.live:
            return BOTTOM
        if b["expr"] is not None:
            return self.eval(fr, b["expr"])
        return tm.UNIT

    def stmt_let(self, fr, s):
        if s["init"] is None:
            self.declare_pat(fr, s["pat"])
            return
        lv = self.eval_lv(fr, s["init"])
        if not self.store.live:
            return
        if isinstance(lv, Place):
            v = self.read(lv)
            c = self.match_pat(fr, s["pat"], v, lv)
        else:
            v = lv
            c = self.match_pat(fr, s["pat"], v, None)
        if s["else"] is not None and c is not tm.TRUE:
            # let-else: the else block diverges
            def els():
                blk = {"b": s["else"]}
                return self.e_block(fr, blk, None)
            self.branch(c, lambda: tm.UNIT, els)

    def declare_pat(self, fr, pat):
        if pat["k"] == "bind":
            fr.vars[pat["var"]] = self.new_cell(mk("uninit", pat["name"]), pat["name"])
        for key in ("sub",):
            if pat.get(key):
                self.declare_pat(fr, pat[key])
        for sp in pat.get("subs", []) or []:
            self.declare_pat(fr, sp["p"])

    def e_assign(self, fr, e, eid):
        v = self.eval(fr, e["rhs"])
        if not self.store.live:
            return BOTTOM
        lv = self.eval_lv(fr, e["lhs"])
        if isinstance(lv, Place):
            self.write(lv, v)
        else:
            self.unsupported.append(("assign-to-value", e.get("loc")))
        return tm.UNIT

    def e_assignop(self, fr, e, eid):
        rhs = self.eval(fr, e["rhs"])
        lv = self.eval_lv(fr, e["lhs"])
        op = e["op"].replace("Assign", "")
        f = self._BIN.get(op)
        if isinstance(lv, Place):
            cur = self.read(lv)
            self.write(lv, f(cur, rhs) if f else mk("binop", op, cur, rhs))
        else:
            self.unsupported.append(("assignop-to-value", e.get("loc")))
        return tm.UNIT

    def e_return(self, fr, e, eid):
        v = self.eval(fr, e["v"]) if e["v"] is not None else tm.UNIT
        if not self.store.live:
            return BOTTOM
        return self.do_return(fr, v)

    def e_break(self, fr, e, eid):
        if fr.loops:
            fr.loops[-1].breaks.append((tuple(self.pc), self.store.copy()))
        self.store.live = False
        return BOTTOM

    def e_continue(self, fr, e, eid):
        if fr.loops:
            fr.loops[-1].continues.append((tuple(self.pc), self.store.copy()))
        self.store.live = False
        return BOTTOM

    def e_call(self, fr, e, eid):
        fty = fr.prog.types[e["fty"]]
        args = []
        for a in e["args"]:
            args.append(self.eval(fr, a))
            if not self.store.live:
                return BOTTOM
        cx = {"ret_ty": e["ty"], "loc": e["loc"], "arg_tys": [fr.exprs[a]["ty"] for a in e["args"]],
              "expr": e, "mac": e.get("mac"), "arg_ids": e["args"]}
        if not e.get("mac"):
            self.cur_site = e["loc"]
        if fty["k"] != "fndef":
            f = self.eval(fr, e["fun"])
            return self.apply(f, args, cx)
        return self.call_fn(fr, fr.prog, fty, args, cx)

    def e_match(self, fr, e, eid):
        if "ForLoopDesugar" in e["src"]:
            return self.for_loop(fr, e)
        lv = self.eval_lv(fr, e["scrut"])
        if not self.store.live:
            return BOTTOM
        if isinstance(lv, Place):
            v = self.read(lv)
            place = lv
        else:
            v = lv
            place = None
        arms = [fr.body["arms"][a] for a in e["arms"]]
        return self.match_arms(fr, arms, 0, v, place)

    def match_arms(self, fr, arms, i, v, place):
        arm = arms[i]
        last = i == len(arms) - 1
        n0 = len(self.pc)
        c = self.match_pat(fr, arm["pat"], v, place)
        if arm["guard"] is not None:
            if self.decide(c) is not False:
                self.pc.append(c)
                g = self.eval_cond(fr, arm["guard"])
                del self.pc[n0:]
                c = tm.and_(c, g)
        d = self.decide(c)
        if d is False:
            if last:
                # no arm can match on this path: the path itself is infeasible
                self.store.live = False
                return BOTTOM
            return self.match_arms(fr, arms, i + 1, v, place)
        if last:
            # rustc checked exhaustiveness: the last reachable arm needs no test
            if d is None:
                self.pc.append(c)
            r = self.eval(fr, arm["body"])
            return r
        return self.branch(c, lambda: self.eval(fr, arm["body"]),
                           lambda: self.match_arms(fr, arms, i + 1, v, place))

    # ------------------------------------------------------------------ for loops
    def for_loop(self, fr, e):
        # match into_iter(X) { iter => loop { match next(&mut iter) { None => break, Some(p) => body } } }
        _sid, se = _strip(fr, e["scrut"])
        if se["k"] != "call":
            raise Unsupported("for: scrutinee")
        itv = self.eval(fr, e["scrut"])
        if not self.store.live:
            return BOTTOM
        arm = fr.body["arms"][e["arms"][0]]
        _lid, le = _strip(fr, arm["body"])
        inner = _find_inner_match(fr, le)
        if inner is None:
            raise Unsupported("for: shape")
        pat = None
        body_eid = None
        for aid in inner["arms"]:
            a = fr.body["arms"][aid]
            p = a["pat"]
            if p["k"] == "variant" and p["vname"] == "Some":
                pat = p["subs"][0]["p"]
                body_eid = a["body"]
        if pat is None:
            raise Unsupported("for: arms")
        return self.models.run_for(self, fr, itv, pat, body_eid, e)

    def loop_body_once(self, fr, pat, body_eid, elem, elem_place=None):
        """Evaluate one iteration; returns when the iteration ended normally or by `continue`
        (stores merged)."""
        self.nloop += 1
        ctx = LoopCtx(self.nloop)
        fr.loops.append(ctx)
        n0 = len(self.pc)
        try:
            c = self.match_pat(fr, pat, elem, elem_place)
            self.eval(fr, body_eid)
        finally:
            fr.loops.pop()
        # merge `continue` paths with the fall-through path
        end_live = self.store.live
        store = self.store if end_live else None
        for cpc, cs in reversed(ctx.continues):
            g = tm.and_(*cpc[n0:]) if len(cpc) > n0 else tm.TRUE
            cs.live = True
            if store is None:
                store = cs
            else:
                store = self.merge(g, cs, store)
        del self.pc[n0:]
        if store is None:
            # every path left by break/return
            self.store.live = False
            return ctx
        self.store = store
        self.store.live = True
        return ctx

    def e_loop(self, fr, e, eid):
        self.unsupported.append(("loop", e.get("loc")))
        self.effect("nonterminating?", "explicit loop", e.get("loc"))
        return mk("unsupported", "loop", e.get("loc"))


_PRIMS = frozenset(["f32", "f64", "usize", "isize", "i32", "u32", "i64", "u64", "u8", "i8", "u16", "i16"])
_ARITH_TRAITS = frozenset(["Add", "Sub", "Mul", "Div", "Rem", "Neg", "AddAssign", "SubAssign",
                           "MulAssign", "DivAssign", "PartialEq", "PartialOrd"])
_PRIORITY_MODELS = frozenset(["std::ops::Fn::call", "std::ops::FnMut::call_mut",
                              "std::ops::FnOnce::call_once"])


def _atoms(t, out=None, seen=None):
    """Boolean atoms of the propositional skeleton of t."""
    if out is None:
        out = []
        seen = set()
    if t.id in seen:
        return out
    seen.add(t.id)
    if t.op in ("and", "or", "not"):
        for x in t.a:
            _atoms(x, out, seen)
    elif t.op == "ite":
        for x in t.a:
            _atoms(x, out, seen)
    elif t.op == "bool":
        pass
    else:
        out.append(t)
    return out


def _short_path(p):
    p = p.replace("cteepbd::", "")
    return p


_EMB = {}


def _embedded_cond(g):
    """A condition of an `ite` nested inside a comparison (None if there is none)."""
    r = _EMB.get(g.id, 0)
    if r != 0:
        return r
    r = None
    for t in tm.subterms(g):
        if t.op == "ite" and t.a[0].op != "bool":
            c = t.a[0]
            ats = _atoms(c)
            if ats:
                r = ats[0]
                break
    _EMB[g.id] = r
    return r


def _akey(a):
    if a.op == "isvar":
        return ("v", a.a[0].id)
    return a.id


def _conjuncts(t):
    if t.op == "and":
        out = []
        for x in t.a:
            out.extend(_conjuncts(x))
        return out
    return [t]


def _filters_of(src):
    """Predicates known to hold for every element of a collection / iterator term."""
    out = []
    t = src
    n = 0
    while n < 10:
        n += 1
        if t.op in ("collect", "iter") and isinstance(t.a[0], T):
            t = t.a[0]
            continue
        if t.op == "filter":
            out.append(t.a[1])
            t = t.a[0]
            continue
        if t.op == "retain":
            out.append(t.a[1])
            t = t.a[0]
            continue
        if t.op == "extend" and isinstance(t.a[0], T) and t.a[0].op == "seq" and not t.a[0].a and isinstance(t.a[1], T):
            t = t.a[1]            # an empty list extended by an iterator: its elements are the iterator's
            continue
        if t.op == "map" and isinstance(t.a[1], T) and t.a[1].op == "lam":
            x = tm.fresh("idm")
            if tm.apply_lam(t.a[1], [x]) is x:      # identity (e.g. a clone of each element)
                t = t.a[0]
                continue
        break
    return out


class _GenvFrame(object):
    """Minimal stand-in frame carrying a generic environment for fn items called later."""

    def __init__(self, frozen):
        self.genv = dict(frozen) if frozen else {}


def _freeze(genv):
    return tuple(sorted((genv or {}).items()))


def _strip(fr, eid):
    e = fr.exprs[eid]
    while e["k"] in ("scope", "use"):
        eid = e["v"] if e["k"] == "scope" else e["src"]
        e = fr.exprs[eid]
    return eid, e


def _find_inner_match(fr, le):
    """Inside the desugared `loop`, find the match on next()."""
    if le["k"] != "loop":
        return None
    _i, b = _strip(fr, le["body"])
    if b["k"] != "block":
        return None
    blk = fr.body["blocks"][b["b"]]
    cands = []
    for sid in blk["stmts"]:
        s = fr.body["stmts"][sid]
        if s["k"] == "expr":
            cands.append(s["e"])
    if blk["expr"] is not None:
        cands.append(blk["expr"])
    for c in cands:
        _i, m = _strip(fr, c)
        if m["k"] == "match":
            return m
    return None


def _unquote(s):
    s = s.strip()
    if len(s) >= 2 and s[0] in "\"'" and s[-1] == s[0]:
        body = s[1:-1]
        try:
            return bytes(body, "utf-8").decode("unicode_escape").encode("latin-1").decode("utf-8") \
                if "\\" in body else body
        except Exception:
            return body
    return s


_ADT_ALIASES = {
    "std::option::Option": "Option",
    "core::option::Option": "Option",
    "std::result::Result": "Result",
    "core::result::Result": "Result",
}


def _norm_adt(path):
    p = _ADT_ALIASES.get(path)
    if p:
        return p
    if path.startswith("cteepbd::"):
        # the binary names library types through the re-exports; normalise on the last segment
        return path.split("::")[-1]
    return path.split("::")[-1] if "::" in path else path
