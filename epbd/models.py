"""Models of the std / num / clap functions the crate calls (DESIGN A4), and loop handling.

Every model is keyed by the def path printed by rustc.  Anything without a model becomes an
uninterpreted `call(path, args…)` node and any `&mut` argument is havocked, so extraction never
fails; precision degrades locally and rule packs treat such nodes conservatively.
"""
from . import term as tm
from .term import T, mk
from .sym import (BOTTOM, Place, Unsupported, is_ref, place_of_ref, _norm_adt, _strip, LoopCtx,
                  _filters_of)

ITER_OPS = frozenset(["eiter", "iter", "map", "filter", "filter_map", "zip", "take", "skip",
                      "enumerate", "rev", "iter_mut", "chain", "lines", "split", "splitn",
                      "chars", "cli_values", "range", "take_while", "skip_while", "map_while", "step_by"])

EXIT_CODES = {"OK": 0, "USAGE": 64, "DATAERR": 65, "NOINPUT": 66, "NOUSER": 67, "NOHOST": 68,
              "UNAVAILABLE": 69, "SOFTWARE": 70, "OSERR": 71, "OSFILE": 72, "CANTCREAT": 73,
              "IOERR": 74, "TEMPFAIL": 75, "PROTOCOL": 76, "NOPERM": 77, "CONFIG": 78}

UNDEF = tm.GARBAGE


def opt_is_some(o):
    return tm.isvar(o, "Option", 1)


def opt_val(o):
    return tm.proj(o, 1, 0, None)


def res_is_ok(r):
    return tm.isvar(r, "Result", 0)


def res_ok(r):
    return tm.proj(r, 0, 0, None)


def res_err(r):
    return tm.proj(r, 1, 0, None)


def make_opt(cond, val):
    return tm.ite(cond, tm.some(val), tm.NONE)


class Models(object):
    def __init__(self):
        self.table = {}
        self.opaque = {}
        self._find_memo = {}
        self._register()

    # ------------------------------------------------------------------ helpers on values
    def enum_variants_of(self, ev, prog, tid):
        return prog.fieldless_enum_variants(tid) if tid is not None else None

    def enum_const(self, prog, tid, idx):
        t = prog.types[prog.peel_refs(tid)]
        return tm.adt(_norm_adt(t["path"]), idx)

    def empty_emap(self, prog, ktid, ev=None, vtid=None):
        """Finite map with every key absent.  The value slot of an absent key holds the value
        type's Default when it is known (a representation choice that makes
        `*entry(k).or_default() += x` a plain addition); it is never observable while absent."""
        vs = prog.fieldless_enum_variants(ktid)
        t = prog.types[prog.peel_refs(ktid)]
        dv = UNDEF
        if ev is not None and vtid is not None:
            vt = prog.types[vtid]
            numeric = vt["k"] == "prim" or (vt["k"] == "adt" and (
                vt["path"].endswith("HashMap") or vt.get("local") or vt["path"].endswith("RenNrenCo2")))
            if numeric:
                try:
                    dv = self.default_of(ev, prog, vtid)
                    if dv.op == "default":
                        dv = UNDEF
                except Exception:
                    dv = UNDEF
        args = []
        for _ in vs:
            args.extend([tm.FALSE, dv])
        if dv is not UNDEF:
            args.append(dv)       # trailing marker: "absent slots hold this default"
        return mk("emap", _norm_adt(t["path"]), *args)

    def emap_default(self, m):
        if m.op == "emap" and len(m.a) % 2 == 0:
            return m.a[-1]
        return None

    def empty_eset(self, prog, ktid):
        vs = prog.fieldless_enum_variants(ktid)
        t = prog.types[prog.peel_refs(ktid)]
        return mk("eset", _norm_adt(t["path"]), *[tm.FALSE for _ in vs])

    def emap_entries(self, m):
        """[(idx, key const, present, value)]"""
        path = m.a[0]
        out = []
        n = (len(m.a) - 1) // 2
        for i in range(n):
            out.append((i, tm.adt(path, i), m.a[1 + 2 * i], m.a[2 + 2 * i]))
        return out

    def emap_set(self, m, i, pres, val):
        args = list(m.a)
        args[1 + 2 * i] = pres
        args[2 + 2 * i] = val
        return mk("emap", *args)

    def key_index(self, m, k):
        """Index of constant key k in an emap/eset, or None."""
        if k.op == "adt" and k.a[0] == m.a[0] and len(k.a) == 2:
            return k.a[1]
        return None

    def len_of(self, ev, v):
        if v.op in ("ite", "push"):
            # lists built by conditional pushes are DAGs with heavy sharing: one visit per node
            memo = self.__dict__.setdefault("_len_memo", {})
            r = memo.get(v.id)
            if r is None:
                r = self._len_of(ev, v)
                memo[v.id] = r
            return r
        return self._len_of(ev, v)

    def _len_of(self, ev, v):
        if v.op == "seq":
            return tm.num(len(v.a))
        if v.op == "rep":
            return v.a[1]
        if v.op == "eiter":
            n = len(v.a) // 2
            if all(v.a[2 * i] is tm.TRUE for i in range(n)):
                return tm.num(n)
        if v.op == "ite":
            return tm.ite(v.a[0], self.len_of(ev, v.a[1]), self.len_of(ev, v.a[2]))
        if v.op == "push":
            return tm.add(self.len_of(ev, v.a[0]), tm.ONE)
        if v.op == "str":
            return tm.num(len(v.a[0].encode("utf-8")))
        if v.op == "collect" and isinstance(v.a[0], T):
            # a comprehension is as long as what it maps over
            base = v.a[0]
            while base.op == "map":
                base = base.a[0]
            if _is_range0(base):
                return base.a[0].a[3]
        return mk("len", v)

    def index_value(self, ev, v, idx):
        if v.op == "seq" and idx.op == "num" and isinstance(idx.a[0], int) and 0 <= idx.a[0] < len(v.a):
            return v.a[idx.a[0]]
        if v.op == "rep":
            return v.a[0]
        if idx.op == "adt" and idx.a[0] in ("RangeFrom", "Range", "RangeTo", "RangeFull", "RangeInclusive"):
            return mk("subrange", v, idx)
        if v.op == "emap":
            return self.map_index(ev, v, idx)
        if v.op == "setidx" and v.a[1] is idx:
            return v.a[2]                 # the element just written at this very index
        if v.op == "collect" and v.a[0].op == "map" and _is_range0(v.a[0].a[0]) and isinstance(v.a[0].a[1], T) \
                and v.a[0].a[1].op == "lam" and idx.op not in ("adt",):
            # element i of the comprehension (0..n).map(f).collect() is f(i)  (i < n is the bounds obligation of the read)
            return tm.apply_lam(v.a[0].a[1], [idx])
        if idx.op == "position_val" and idx.a[0].op == "iter":
            # v[v0.iter().position(p)] where v is v0 after updates of that very element: the first element of v0
            # satisfying p, updated (same terms as iter().find(p) / iter_mut().find(p))
            base, fs = self._same_first(v, idx)
            if base is not None:
                x = mk("find_val", idx.a[0], idx.a[1])
                for f in fs:
                    x = tm.apply_lam(f, [x])
                return x
        return mk("index", v, idx)

    def _same_first(self, v, idx):
        """v = upd_first(... upd_first(v0, p, f1) ..., p, fk) with idx = position_val(iter(v0), p): (v0, [f1..fk])"""
        fs = []
        cur = v
        for _ in range(8):
            if cur is idx.a[0].a[0]:
                return cur, list(reversed(fs))
            if cur.op == "upd_first" and cur.a[1] is idx.a[1]:
                fs.append(cur.a[2])
                cur = cur.a[0]
                continue
            break
        return None, None

    def set_index(self, ev, v, idx, new):
        if v.op == "setidx" and v.a[1] is idx:
            return mk("setidx", v.a[0], idx, new)       # a second write to the same element replaces the first
        if idx.op == "position_val" and idx.a[0].op == "iter":
            base, fs = self._same_first(v, idx)
            if base is not None:
                # the element at that position, after the updates already made to it
                cur_el = self.index_value(ev, v, idx)
                e = tm.fresh("e")
                x = e
                for f in fs:
                    x = tm.apply_lam(f, [x])
                # new is written in terms of the current element; express it in terms of the original one
                body = tm.subst(new, {cur_el: x}) if fs else tm.subst(new, {mk("find_val", idx.a[0], idx.a[1]): e})
                return mk("upd_first", base, idx.a[1], tm.lam([e], body))
        if v.op == "seq" and idx.op == "num" and isinstance(idx.a[0], int) and 0 <= idx.a[0] < len(v.a):
            args = list(v.a)
            args[idx.a[0]] = new
            return mk("seq", *args)
        return mk("setidx", v, idx, new)

    def note_index(self, ev, fr, e, base, idx):
        pass

    # maps -----------------------------------------------------------------------------
    def map_index(self, ev, m, k):
        if m.op == "ite":
            # joins of maps are DAGs with heavy sharing: one visit per (map node, key)
            memo = self.__dict__.setdefault("_mapidx_memo", {})
            key = (m.id, k.id)
            r = memo.get(key)
            if r is None:
                r = tm.ite(m.a[0], self.map_index(ev, m.a[1], k), self.map_index(ev, m.a[2], k))
                memo[key] = r
            return r
        if m.op == "emap":
            i = self.key_index(m, k)
            if i is not None:
                return m.a[2 + 2 * i]
            r = UNDEF
            for (i, kc, p, v) in reversed(self.emap_entries(m)):
                r = tm.ite(tm.eq(k, kc), v, r)
            return r
        if m.op == "mapinsert":
            c = tm.eq(m.a[1], k)
            if c is tm.TRUE:
                return m.a[2]
            if c is tm.FALSE:
                return self.map_index(ev, m.a[0], k)
        if m.op == "ite":
            return tm.ite(m.a[0], self.map_index(ev, m.a[1], k), self.map_index(ev, m.a[2], k))
        return mk("mapidx", m, k)

    def map_contains(self, ev, m, k):
        if m.op == "ite":
            memo = self.__dict__.setdefault("_mapcont_memo", {})
            key = (m.id, k.id)
            r = memo.get(key)
            if r is None:
                r = tm.ite(m.a[0], self.map_contains(ev, m.a[1], k), self.map_contains(ev, m.a[2], k))
                memo[key] = r
            return r
        if m.op == "emap":
            i = self.key_index(m, k)
            if i is not None:
                return m.a[1 + 2 * i]
            return tm.or_(*[tm.and_(tm.eq(k, kc), p) for (i, kc, p, v) in self.emap_entries(m)])
        if m.op == "eset":
            i = self.key_index(m, k)
            if i is not None:
                return m.a[1 + i]
            return tm.or_(*[tm.and_(tm.eq(k, tm.adt(m.a[0], i)), m.a[1 + i])
                            for i in range(len(m.a) - 1)])
        if m.op in ("mapinsert",):
            c = tm.eq(m.a[1], k)
            if c is tm.TRUE:
                return tm.TRUE
            if c is tm.FALSE:
                return self.map_contains(ev, m.a[0], k)
        if m.op == "mapremove":
            c = tm.eq(m.a[1], k)
            if c is tm.TRUE:
                return tm.FALSE
            if c is tm.FALSE:
                return self.map_contains(ev, m.a[0], k)
        if m.op == "empty_map":
            return tm.FALSE
        if m.op == "ite":
            return tm.ite(m.a[0], self.map_contains(ev, m.a[1], k), self.map_contains(ev, m.a[2], k))
        return mk("contains_key", m, k)

    def map_insert(self, ev, m, k, v):
        if m.op == "emap":
            i = self.key_index(m, k)
            if i is not None:
                return self.emap_set(m, i, tm.TRUE, v)
            out = m
            ents = self.emap_entries(m)
            conds = [tm.eq(k, kc) for (_i, kc, _p, _o) in ents]
            for j, (i, kc, p, old) in enumerate(ents):
                c = conds[j]
                # the value stored in entry i is the new value where the key IS that entry's key: specialise it
                # (a value computed from `map[k]` - an ite chain over all entries - collapses to that entry)
                sub = dict((cj, tm.TRUE if jj == j else tm.FALSE) for jj, cj in enumerate(conds)
                           if cj is not tm.TRUE and cj is not tm.FALSE)
                vi = tm.subst(v, sub) if sub else v
                out = self.emap_set(out, i, tm.or_(c, p), tm.ite(c, vi, old))
            return out
        if m.op == "ite" and m.a[1].op in ("emap", "ite") and m.a[2].op in ("emap", "ite"):
            memo = self.__dict__.setdefault("_mapins_memo", {})
            key = (m.id, k.id, v.id)
            r = memo.get(key)
            if r is None:
                r = tm.ite(m.a[0], self.map_insert(ev, m.a[1], k, v), self.map_insert(ev, m.a[2], k, v))
                memo[key] = r
            return r
        return mk("mapinsert", m, k, v)

    def map_remove(self, ev, m, k):
        if m.op == "emap":
            i = self.key_index(m, k)
            d = self.emap_default(m)
            if i is not None:
                return self.emap_set(m, i, tm.FALSE, d if d is not None else UNDEF)
            out = m
            for (i, kc, p, old) in self.emap_entries(m):
                c = tm.eq(k, kc)
                out = self.emap_set(out, i, tm.and_(tm.not_(c), p), tm.ite(c, d, old) if d is not None else old)
            return out
        return mk("mapremove", m, k)

    def map_get(self, ev, m, k):
        return make_opt(self.map_contains(ev, m, k), self.map_index(ev, m, k))

    def set_insert(self, ev, s, k):
        if s.op == "eset":
            i = self.key_index(s, k)
            if i is not None:
                args = list(s.a)
                args[1 + i] = tm.TRUE
                return mk("eset", *args)
            args = [s.a[0]]
            for i in range(len(s.a) - 1):
                args.append(tm.or_(tm.eq(k, tm.adt(s.a[0], i)), s.a[1 + i]))
            return mk("eset", *args)
        return mk("setinsert", s, k)

    # iterators --------------------------------------------------------------------------
    def hashy(self, it):
        return it.id in self.__dict__.setdefault("_hashy", set())

    def mark_hashy(self, it, src=None):
        """Remember that the order of an unrolled iterator is hash order (directly or inherited)."""
        hs = self.__dict__.setdefault("_hashy", set())
        if src is None or src.id in hs:
            hs.add(it.id)
        return it

    def order_event(self, ev, kind, it):
        """An order-sensitive consumer applied to an iterator in hash order (opt-in bookkeeping)."""
        if getattr(ev, "order_check", False) and not ev.discover and it.op == "eiter" and self.hashy(it) \
                and len(it.a) >= 4:
            ev.__dict__.setdefault("order_events", []).append(
                {"kind": kind, "stack": tuple(ev.call_stack), "n": len(it.a) // 2, "it": it})

    def to_iter(self, ev, v, mode="iter"):
        """mode: iter (pairs for maps) | keys | values"""
        if v.op in ITER_OPS:
            return v
        if v.op == "collect" and v.a[0].op == "eiter":
            return v.a[0]
        if v.op == "seq":
            args = []
            for x in v.a:
                args.extend([tm.TRUE, x])
            return mk("eiter", *args)
        if v.op == "emap":
            args = []
            for (i, kc, p, val) in self.emap_entries(v):
                if p is tm.FALSE:
                    continue
                el = {"iter": tm.tup(kc, val), "keys": kc, "values": val}[mode]
                args.extend([p, el])
            return self.mark_hashy(mk("eiter", *args))
        if v.op == "eset":
            args = []
            for i in range(len(v.a) - 1):
                if v.a[1 + i] is tm.FALSE:
                    continue
                args.extend([v.a[1 + i], tm.adt(v.a[0], i)])
            return self.mark_hashy(mk("eiter", *args))
        if mode == "keys":
            return mk("map", mk("iter", v), _LAM_FST)
        if mode == "values":
            return mk("map", mk("iter", v), _LAM_SND)
        return mk("iter", v)

    def eiter_items(self, it):
        return [(it.a[2 * i], it.a[2 * i + 1]) for i in range(len(it.a) // 2)]

    def apply_gated(self, ev, g, f, args):
        """Apply callable f under gate g (pc extended so effects are gated)."""
        d = ev.decide(g)
        if d is False:
            return BOTTOM
        n0 = len(ev.pc)
        if d is None:
            ev.pc.append(g)
        v = ev.apply(f, args)
        del ev.pc[n0:]
        if not ev.store.live:
            ev.store.live = True
        return v

    def it_map(self, ev, it, f):
        if it.op == "eiter":
            args = []
            for g, x in self.eiter_items(it):
                y = self.apply_gated(ev, g, f, [x])
                if y is BOTTOM:
                    continue
                args.extend([g, y])
            return self.mark_hashy(mk("eiter", *args), it)
        l, _ch = ev.reify(f, 1, elem_of=it)
        if l is _LAM_ID:
            return it
        return mk("map", it, l)

    def it_filter(self, ev, it, f):
        if it.op == "eiter":
            args = []
            for g, x in self.eiter_items(it):
                c = self.apply_gated(ev, g, f, [x])
                if c is BOTTOM:
                    continue
                g2 = tm.and_(g, c)
                if g2 is tm.FALSE:
                    continue
                args.extend([g2, x])
            return self.mark_hashy(mk("eiter", *args), it)
        l, _ch = ev.reify(f, 1, elem_of=it)
        return mk("filter", it, l)

    def it_filter_map(self, ev, it, f):
        if it.op == "eiter":
            args = []
            for g, x in self.eiter_items(it):
                o = self.apply_gated(ev, g, f, [x])
                if o is BOTTOM:
                    continue
                g2 = tm.and_(g, opt_is_some(o))
                if g2 is tm.FALSE:
                    continue
                args.extend([g2, opt_val(o)])
            return self.mark_hashy(mk("eiter", *args), it)
        l, _ch = ev.reify(f, 1, elem_of=it)
        return mk("filter_map", it, l)

    def it_zip(self, ev, a, b):
        if a.op == "eiter" and b.op == "eiter":
            ia, ib = self.eiter_items(a), self.eiter_items(b)
            if all(g is tm.TRUE for g, _ in ia) and all(g is tm.TRUE for g, _ in ib):
                args = []
                for (_, x), (_, y) in zip(ia, ib):
                    args.extend([tm.TRUE, tm.tup(x, y)])
                return mk("eiter", *args)
        return mk("zip", a, b)

    def it_sum(self, ev, it):
        if it.op == "eiter":
            r = None
            for g, x in self.eiter_items(it):
                t = tm.ite(g, x, tm.ZERO)
                r = t if r is None else tm.add(r, t)
            return r if r is not None else tm.ZERO
        return mk("sum", it)

    def it_any(self, ev, it, f):
        if it.op == "eiter":
            parts = []
            for g, x in self.eiter_items(it):
                c = self.apply_gated(ev, g, f, [x])
                if c is BOTTOM:
                    continue
                parts.append(tm.and_(g, c))
            return tm.or_(*parts)
        l, _ = ev.reify(f, 1, elem_of=it)
        return self.any_term(it, l)

    def any_term(self, it, l):
        return tm.any_(it, l)

    def it_all(self, ev, it, f):
        if it.op == "eiter":
            parts = []
            for g, x in self.eiter_items(it):
                c = self.apply_gated(ev, g, f, [x])
                if c is BOTTOM:
                    continue
                parts.append(tm.or_(tm.not_(g), c))
            return tm.and_(*parts)
        l, _ = ev.reify(f, 1, elem_of=it)
        return tm.all_(it, l)

    def it_find(self, ev, it, f):
        if it.op == "eiter":
            self.order_event(ev, "find", it)
            r = tm.NONE
            for g, x in reversed(self.eiter_items(it)):
                c = self.apply_gated(ev, g, f, [x])
                if c is BOTTOM:
                    continue
                r = tm.ite(tm.and_(g, c), tm.some(x), r)
            return r
        l, _ = ev.reify(f, 1, elem_of=it)
        if it.op == "iter" and it.a[0].op in ("push", "ite", "extend"):
            return self.find_in(it.a[0], l)
        if it.op == "iter_mut":
            pl = place_of_ref(it.a[0])
            coll = ev.read(pl)
            return make_opt(tm.any_(mk("iter", coll), l), pl.ext(("first", l)).ref())
        return make_opt(tm.any_(it, l), mk("find_val", it, l))

    def find_in(self, coll, l):
        k = (coll.id, l.id)
        r = self._find_memo.get(k)
        if r is None:
            r = self._find_in(coll, l)
            self._find_memo[k] = r
        return r

    def _find_in(self, coll, l):
        """First element of a collection term satisfying l (pushes and joins made explicit)."""
        if coll.op == "push":
            inner = self.find_in(coll.a[0], l)
            c = tm.apply_lam(l, [coll.a[1]])
            if c is tm.FALSE:
                return inner
            return tm.ite(opt_is_some(inner), inner, tm.ite(c, tm.some(_let_fields(coll.a[1])), tm.NONE))
        if coll.op == "ite":
            return tm.ite(coll.a[0], self.find_in(coll.a[1], l), self.find_in(coll.a[2], l))
        if coll.op == "extend" and isinstance(coll.a[1], T):
            # extended by an explicit list of elements (a fixed array mapped to records): the same as pushing them in turn
            src = coll.a[1]
            items = None
            if src.op == "eiter" and all(g is tm.TRUE for g, _x in self.eiter_items(src)):
                items = [x for _g, x in self.eiter_items(src)]
            elif src.op == "iter" and src.a[0].op == "seq":
                items = list(src.a[0].a)
            if items is not None:
                cur = coll.a[0]
                for x in items:
                    cur = mk("push", cur, x)
                return self.find_in(cur, l)
        if coll.op == "seq":
            r = tm.NONE
            for x in reversed(coll.a):
                r = tm.ite(tm.apply_lam(l, [x]), tm.some(x), r)
            return r
        it = mk("iter", coll)
        return make_opt(tm.any_(it, l), mk("find_val", it, l))

    def it_position(self, ev, it, f):
        l, _ = ev.reify(f, 1, elem_of=it)
        return make_opt(tm.any_(it, l), mk("position_val", it, l))

    def it_next(self, ev, itref):
        if is_ref(itref):
            pl = place_of_ref(itref)
            it = ev.read(pl)
        else:
            pl = None
            it = itref
        if it.op == "eiter":
            self.order_event(ev, "next", it)
            items = self.eiter_items(it)
            if not items:
                return tm.NONE
            if items[0][0] is tm.TRUE:
                if pl is not None:
                    rest = []
                    for g, x in items[1:]:
                        rest.extend([g, x])
                    ev.write(pl, mk("eiter", *rest))
                return tm.some(items[0][1])
            if pl is None or True:
                # first present element (the iterator cell keeps a conservative remainder)
                r = tm.NONE
                for g, x in reversed(items):
                    r = tm.ite(g, tm.some(x), r)
                if pl is not None:
                    ev.write(pl, mk("skip", it, tm.ONE))
                return r
        if pl is not None:
            ev.write(pl, mk("skip", it, tm.ONE))
        return make_opt(mk("nonempty", it), mk("first_val", it))

    def collect(self, ev, prog, it, ret_tid, genv):
        t = prog.types[ret_tid]
        if t["k"] == "param":
            return mk("collect", it, "param:" + t["n"])
        if t["k"] != "adt":
            return mk("collect", it, t["s"])
        path = t["path"]
        if path.endswith("vec::Vec"):
            self.order_event(ev, "collect-vec", it)
            return self.collect_vec(it)
        if path.endswith("HashSet"):
            vs = prog.fieldless_enum_variants(t["args"][0])
            if vs is not None:
                base = self.empty_eset(prog, t["args"][0])
                args = [base.a[0]]
                if it.op == "eiter":
                    items = self.eiter_items(it)
                    for i, _n in vs:
                        kc = tm.adt(base.a[0], i)
                        args.append(tm.or_(*[tm.and_(g, tm.eq(x, kc)) for g, x in items]))
                else:
                    x = tm.fresh("x")
                    for i, _n in vs:
                        kc = tm.adt(base.a[0], i)
                        args.append(self.any_term(it, tm.lam([x], tm.eq(x, kc))))
                return mk("eset", *args)
            return mk("collect_set", it)
        if path.endswith("HashMap"):
            vs = prog.fieldless_enum_variants(t["args"][0])
            gen_enum = None
            if vs is None:
                gen_enum = self._generic_enum(prog, t["args"][0], genv)
                if gen_enum is not None:
                    vs = gen_enum[1]
            if vs is not None:
                if gen_enum is not None:
                    # HashMap<K, _> inside a generic helper instantiated with K = a fieldless enum of the crate
                    margs = []
                    for _ in vs:
                        margs.extend([tm.FALSE, UNDEF])
                    m = mk("emap", _norm_adt(gen_enum[0]), *margs)
                else:
                    m = self.empty_emap(prog, t["args"][0])
                if it.op == "eiter":
                    for g, x in self.eiter_items(it):
                        k, v = tm.tproj(x, 0), tm.tproj(x, 1)
                        m2 = self.map_insert(ev, m, k, v)
                        m = tm.ite(g, m2, m)
                    return m
                x = tm.fresh("x")
                for i, _n in vs:
                    kc = tm.adt(m.a[0], i)
                    l = tm.lam([x], tm.eq(tm.tproj(x, 0), kc))
                    m = self.emap_set(m, i, tm.any_(it, l), tm.tproj(mk("find_val", it, l), 1))
                return m
            return mk("collect_map", it)
        if path.endswith("result::Result"):
            inner = prog.types[t["args"][0]]
            x = tm.fresh("r")
            all_ok = tm.all_(it, tm.lam([x], res_is_ok(x)))
            oks = mk("map", it, tm.lam([x], res_ok(x)))
            if inner["k"] == "adt" and inner["path"].endswith("vec::Vec"):
                okv = self.collect_vec(oks)
            else:
                okv = mk("collect", oks, inner["s"])
            if it.op == "eiter":
                items = self.eiter_items(it)
                all_ok = tm.and_(*[tm.or_(tm.not_(g), res_is_ok(v)) for g, v in items])
                if all(g is tm.TRUE for g, _ in items):
                    okv = mk("seq", *[res_ok(v) for _, v in items])
                first_err = mk("first_err", it)
            else:
                first_err = res_err(mk("find_val", it, tm.lam([x], tm.not_(res_is_ok(x)))))
            return tm.ite(all_ok, tm.ok(okv), tm.err(first_err))
        if path.endswith("string::String"):
            self.order_event(ev, "collect-string", it)
            return mk("concat", it)
        self.order_event(ev, "collect-list", it)
        return mk("collect", it, t["s"])

    def _generic_enum(self, prog, tid, genv):
        """(adt path, [(idx, name)]) when the type is a type parameter bound (in this instantiation) to a fieldless
        enum of the crate, else None."""
        t = prog.types[prog.peel_refs(tid)]
        if t["k"] != "param" or not genv:
            return None
        key = genv.get(t["n"])
        if not isinstance(key, str):
            return None
        a = prog.adts.get(key)
        if a is None and prog.other is not None:
            a = prog.other.adts.get(key)
        if a is None or a["kind"] != "enum" or any(v["fields"] for v in a["variants"]):
            return None
        return a["path"], [(v["idx"], v["name"]) for v in a["variants"]]

    def collect_vec(self, it):
        r = self._interchanged_vector_sum(it)
        if r is not None:
            return r
        if it.op == "eiter":
            items = self.eiter_items(it)
            if all(g is tm.TRUE for g, _ in items):
                return mk("seq", *[x for _, x in items])
            return mk("collect", it)
        if it.op == "iter":
            return it.a[0]
        v = _as_vop(it)
        if v is not None:
            return v
        return mk("collect", it)

    def _interchanged_vector_sum(self, it):
        """(0..n).map(|i| Σ_{v in L} v.get(i).unwrap_or(0)).collect()  =  the element-wise sum of the vectors of L
        (the loop-interchanged spelling of `L.fold(zeros, |acc, v| acc + v)`; positions beyond a vector count as zero in
        both)."""
        if not (it.op == "map" and _is_range0(it.a[0]) and isinstance(it.a[1], T) and it.a[1].op == "lam"):
            return None
        i = tm.fresh("i")
        b = tm.apply_lam(it.a[1], [i])
        if b.op == "add" and b.a[0] is tm.ZERO:
            b = b.a[1]
        if not (b.op == "sumover" and isinstance(b.a[1], T) and b.a[1].op == "lam"):
            return None
        v = tm.fresh("v")
        e = tm.apply_lam(b.a[1], [v])
        want = tm.ite(tm.lt(i, self.len_of(None, v)), self.index_value(None, v, i), tm.ZERO)
        if e is not want or i in tm.free_syms(b.a[0]):
            return None
        src = b.a[0]
        # Σ over `collect(map(S, f))` of its elements = Σ over S of f
        if src.op == "iter" and src.a[0].op == "collect" and src.a[0].a[0].op == "map":
            m = src.a[0].a[0]
            return mk("vsumover", m.a[0], m.a[1])
        x = tm.fresh("x")
        return mk("vsumover", src, tm.lam([x], x))

    # default values ---------------------------------------------------------------------
    def default_of(self, ev, prog, tid, genv=None):
        t = prog.types[tid]
        k = t["k"]
        if k == "param" and genv:
            # a type parameter of a generic helper, bound in this instantiation
            key = genv.get(t["n"])
            if isinstance(key, str):
                if key in ("f32", "f64", "usize", "isize", "i32", "u32", "i64", "u64", "u8", "i8", "u16", "i16"):
                    return tm.ZERO
                if key == "bool":
                    return tm.FALSE
                r = ev.resolve_trait_method("std::default::Default", "default", key)
                if r is not None:
                    body = ev.prog.body(r[0])
                    if body is not None:
                        return ev.call_body(ev.prog.owner_program(r[0]), body, [], genv=r[1])
        if k == "prim":
            n = t["n"]
            if n == "bool":
                return tm.FALSE
            if n == "str":
                return tm.string("")
            return tm.ZERO
        if k == "adt":
            p = t["path"]
            if p.endswith("string::String"):
                return tm.string("")
            if p.endswith("vec::Vec"):
                return mk("seq")
            if p.endswith("option::Option"):
                return tm.NONE
            if p.endswith("HashMap"):
                if prog.fieldless_enum_variants(t["args"][0]) is not None:
                    return self.empty_emap(prog, t["args"][0], ev, t["args"][1])
                return mk("empty_map")
            if p.endswith("HashSet"):
                if prog.fieldless_enum_variants(t["args"][0]) is not None:
                    return self.empty_eset(prog, t["args"][0])
                return mk("empty_set")
            key = t["def"]
            r = ev.resolve_trait_method("std::default::Default", "default", key)
            if r is not None:
                body = ev.prog.body(r[0])
                if body is not None:
                    return ev.call_body(ev.prog.owner_program(r[0]), body, [], genv=r[1])
        return mk("default", t["s"])

    # ------------------------------------------------------------------ loops
    def run_for(self, ev, fr, itv, pat, body_eid, e):
        def body(elem, elem_place=None):
            return ev.loop_body_once(fr, pat, body_eid, elem, elem_place)
        return self.run_loop(ev, itv, body, e.get("loc"))

    def run_loop(self, ev, itv, body, loc):
        """Iterate `body(elem, elem_place)` over iterator value itv."""
        if itv.op == "eiter":
            items = self.eiter_items(itv)
            check = getattr(ev, "order_check", False) and self.hashy(itv) and len(items) >= 2 and not ev.discover
            rev = None
            if check:
                # the same loop in the opposite order, from the same state, nothing recorded
                saved = ev.store.copy()
                precells = sorted(saved.cells)
                frames = list(ev.active_frames)
                nret0 = [len(f.returns) for f in frames]
                npc = len(ev.pc)
                ev.discover += 1
                try:
                    self._run_unrolled(ev, list(reversed(items)), body)
                finally:
                    ev.discover -= 1
                    del ev.pc[npc:]
                    for f, n in zip(frames, nret0):
                        del f.returns[n:]
                rev = ev.store
                ev.store = saved
            self._run_unrolled(ev, items, body)
            if check:
                ev.__dict__.setdefault("order_loops", []).append(
                    {"loc": loc, "stack": tuple(ev.call_stack), "n": len(items), "names": dict(ev.cell_names),
                     "cells": [(c, ev.store.cells.get(c), rev.cells.get(c)) for c in precells
                               if ev.store.cells.get(c) is not rev.cells.get(c)]})
            return tm.UNIT
        return self.run_symbolic_loop(ev, itv, body, loc)

    def _run_unrolled(self, ev, items, body):
        """One iteration per (gate, element).  Paths that leave by `break` are merged back into the state after
        the loop, each under the condition it was taken with (they used to be dropped, which made everything
        written before a conditional `break` disappear and every later iteration look unconditional)."""
        from .sym import LoopCtx
        n0 = len(ev.pc)
        breaks = []

        def run_item(x):
            ctx = body(x)
            if isinstance(ctx, LoopCtx) and ctx.breaks:
                breaks.extend(ctx.breaks)
            return tm.UNIT
        for g, x in items:
            if not ev.store.live:
                break
            ev.branch(g, lambda x=x: run_item(x), lambda: tm.UNIT)
        if breaks:
            store = ev.store if ev.store.live else None
            for bpc, bs in reversed(breaks):
                gate = tm.and_(*bpc[n0:]) if len(bpc) > n0 else tm.TRUE
                bs.live = True
                store = bs if store is None else ev.merge(gate, bs, store)
            # what was learnt from "this iteration did not break" does not hold after the loop
            del ev.pc[n0:]
            ev.store = store
            ev.store.live = True

    def run_symbolic_loop(self, ev, itv, body, loc):
        from . import folds
        ev.nloop += 1
        uid = ev.nloop
        mut_place = None
        zip_mut = False
        if itv.op == "iter_mut":
            mut_place = place_of_ref(itv.a[0])
            coll = ev.read(mut_place)
            src = mk("iter", coll)
        elif itv.op == "values_mut":
            mut_place = place_of_ref(itv.a[0])
            coll = ev.read(mut_place)
            src = mk("map", mk("iter", coll), _LAM_SND)
        elif itv.op == "zip" and itv.a[0].op == "iter_mut" and is_ref(itv.a[0].a[0]) and itv.a[1].op != "iter_mut":
            # for (a, b) in xs.iter_mut().zip(ys): the elements of xs are rewritten in step with those of ys
            mut_place = place_of_ref(itv.a[0].a[0])
            coll = ev.read(mut_place)
            src = mk("zip", mk("iter", coll), itv.a[1])
            zip_mut = True
        else:
            src = itv
        elem_facts = _filters_of(src)
        pre = ev.store
        frames = list(ev.active_frames)

        def one_pass(state_for, record):
            """Run the body once from `pre` with loop-carried cells replaced by state terms."""
            ev.store = pre.copy()
            for c, st in state_for.items():
                ev.store.cells[c] = st
            elem = tm.fresh("elem")
            ecell = ev.new_cell(tm.tproj(elem, 0) if zip_mut else elem, "elem") if mut_place is not None else None
            n0 = len(ev.pc)
            ev.pc.append(mk("in_loop", uid))
            for lam in elem_facts:
                ev.assume(tm.apply_lam(lam, [elem]))
            nret0 = [len(f.returns) for f in frames]
            try:
                if ecell is not None and zip_mut:
                    ctx = body(tm.tup(Place(ecell).ref(), tm.tproj(elem, 1)), None)
                elif ecell is not None:
                    ctx = body(Place(ecell).ref(), Place(ecell))
                else:
                    ctx = body(elem, None)
            finally:
                del ev.pc[n0:]
            live = ev.store.live
            post = ev.store
            post.live = True
            if not record:
                for f, n in zip(frames, nret0):
                    del f.returns[n:]
            return elem, ecell, post, live, ctx, nret0

        # pass 1: discover the loop-carried cells
        changed = set()
        ev.discover += 1
        try:
            for _round in range(5):
                state_for = dict((c, tm.fresh("st")) for c in changed)
                elem, ecell, post, live, ctx, _n = one_pass(state_for, False)
                new_changed = set(changed)
                for c, v in post.cells.items():
                    if c in pre.cells and c != ecell:
                        base = state_for.get(c, pre.cells[c])
                        if v is not base:
                            new_changed.add(c)
                if new_changed == changed:
                    break
                changed = new_changed
        finally:
            ev.discover -= 1
        # pass 2: shape-preserving symbolic state, effects recorded
        cells = sorted(changed)
        leaves = []
        state_for = {}
        for c in cells:
            state_for[c] = folds.structured_state(pre.cells[c], leaves)
        elem, ecell, post, live, ctx, nret0 = one_pass(state_for, True)
        cl = folds.Classifier(uid, src, elem, leaves)

        def _equiv(a, b):
            ev._budget = 20000
            saved = ev.pc
            ev.pc = []
            try:
                return ev.sat([a, tm.not_(b)], {}) is False and ev.sat([tm.not_(a), b], {}) is False
            finally:
                ev.pc = saved
        cl.equiv = _equiv
        finals = {}
        pw_finals = self._pointwise_range(ev, src, elem, cells, state_for, pre, post) if live and cells else None
        for c in cells:
            if pw_finals is not None:
                finals[c] = pw_finals[c]
                continue
            nxt = post.cells[c] if live else state_for[c]
            finals[c] = cl.rebuild(state_for[c], nxt)
        if pw_finals is not None:
            cl.kinds.append(("pointwise-index", None))
        # paths that leave the loop by `break`: what they wrote reaches the code after the loop
        brks = list(ctx.breaks) if isinstance(ctx, LoopCtx) else []
        if brks:
            bchanged = set()
            for _bpc, bs in brks:
                for c, v in bs.cells.items():
                    if c in pre.cells and c != ecell and v is not state_for.get(c, pre.cells[c]):
                        bchanged.add(c)
            npc0 = len(ev.pc)
            done = False
            if len(brks) == 1 and not cells:
                # nothing is carried from one iteration to the next and the only exit is taken at the first element
                # x with c(x): the cells written before the exit hold f(first x with c), if there is one (`find`)
                bpc, bs = brks[0]
                conds = [g for g in bpc[npc0:] if g.op != "in_loop"]
                if conds and all(g.op != "in_loop" or g.a[0] == uid for g in bpc[npc0:]):
                    lamc = tm.lam([elem], tm.and_(*conds))
                    if src.op == "iter" and src.a[0].op in ("push", "ite"):
                        opt = self.find_in(src.a[0], lamc)
                        first, found = opt_val(opt), opt_is_some(opt)
                    else:
                        first, found = mk("find_val", src, lamc), tm.any_(src, lamc)
                    for c in sorted(bchanged):
                        state_for[c] = pre.cells[c]
                        finals[c] = tm.ite(found, tm.subst(bs.cells[c], {elem: first}), pre.cells[c])
                    done = True
            if not done:
                # anything else (state carried up to the exit, several exits): no closed form is attempted
                for c in sorted(set(cells) | bchanged):
                    state_for.setdefault(c, pre.cells[c])
                    finals[c] = cl.opaque(state_for[c], mk("break_paths", uid))
            cells = sorted(set(cells) | bchanged)
        info = {"uid": uid, "iter": src, "elem": elem, "cells": cells, "loc": loc,
                "state": [state_for[c] for c in cells],
                "init": [pre.cells[c] for c in cells],
                "next": [post.cells.get(c, state_for[c]) if live else state_for[c] for c in cells],
                "final": [finals[c] for c in cells],
                "names": [ev.cell_names.get(c) for c in cells],
                "breaks": len(ctx.breaks) if isinstance(ctx, LoopCtx) else 0,
                "general": cl.general, "kinds": cl.kinds,
                "elem_next": (post.cells.get(ecell) if ecell is not None else None),
                "mut": mut_place is not None, "stack": tuple(ev.call_stack)}
        ev.loops_info[uid] = info
        # early returns recorded inside the body are existential over iterations
        state_syms = frozenset(x for st in state_for.values() for x in tm.free_syms(st))
        nsites = sum(len(f.returns) - n for f, n in zip(frames, nret0))
        for f, n in zip(frames, nret0):
            for i in range(n, len(f.returns)):
                gate, rv, rs = f.returns[i]
                rs2 = pre.copy()
                # the only exit of a loop that carries no state, taken at the first element x with c(x) and returning
                # r(x): this is `find` -  the exit happens iff any(src, c), with x = the first match
                if nsites == 1 and not cells and isinstance(rv, tm.T):
                    inner = [g for g in gate if elem in tm.free_syms(g) or g.op == "in_loop"]
                    outer = [g for g in gate if not (elem in tm.free_syms(g) or g.op == "in_loop")]
                    conds = [g for g in inner if g.op != "in_loop"]
                    if conds and not any(tm.free_syms(g) & state_syms for g in conds) and not (tm.free_syms(rv) & state_syms) \
                            and all(g.op != "in_loop" or g.a[0] == uid for g in inner):
                        lamc = tm.lam([elem], tm.and_(*conds))
                        if src.op == "iter" and src.a[0].op in ("push", "ite", "extend"):
                            # same closed form as the model of Iterator::find (pushes and joins made explicit)
                            opt = self.find_in(src.a[0], lamc)
                            first, found = opt_val(opt), opt_is_some(opt)
                        else:
                            first, found = mk("find_val", src, lamc), tm.any_(src, lamc)
                        rv2 = tm.subst(rv, {elem: first})
                        f.returns[i] = (tuple(outer) + (found,), rv2, rs2)
                        continue
                f.returns[i] = (gate, mk("loop_pick", uid, rv), rs2)
        ev.store = pre.copy()
        ev.store.live = True
        for c in cells:
            ev.store.cells[c] = finals[c]
        if zip_mut:
            if info["elem_next"] is not None and info["elem_next"] is not tm.tproj(elem, 0):
                ev.write(mut_place, self.collect_vec(mk("map", src, tm.lam([elem], info["elem_next"]))))
            return tm.UNIT
        if mut_place is not None and info["elem_next"] is not None and info["elem_next"] is not elem:
            coll = ev.read(mut_place)
            l = tm.lam([elem], info["elem_next"])
            if itv.op == "values_mut":
                ev.write(mut_place, mk("map_values_inplace", coll, l, uid))
            else:
                ev.write(mut_place, mk("map_inplace", coll, l, uid))
        return tm.UNIT

    def _pointwise_range(self, ev, src, elem, cells, state_for, pre, post):
        """`for i in 0..n` whose every loop-carried value is a vector written only at position i (v[i] = e, or pushed
        once per iteration into an empty vector) with e reading the carried vectors only at position i: the steps are
        independent, and each vector ends as the comprehension (0..n).map(|i| e).collect()."""
        if not _is_range0(src):
            return None
        n = src.a[0].a[3]
        syms = {}
        for c in cells:
            st = state_for[c]
            if not (isinstance(st, T) and st.op == "sym"):
                return None
            syms[st] = c
        allsyms = frozenset(syms)
        sub = dict((mk("index", sj, elem), self.index_value(ev, pre.cells[cj], elem)) for sj, cj in syms.items())
        out = {}
        for c in cells:
            s_, nxt, init = state_for[c], post.cells.get(c), pre.cells[c]
            if nxt is None:
                return None
            if nxt.op == "setidx" and nxt.a[0] is s_ and nxt.a[1] is elem:
                e = nxt.a[2]
                if self.len_of(ev, init) is not n:
                    return None
            elif nxt.op == "push" and nxt.a[0] is s_ and init.op == "seq" and not init.a:
                e = nxt.a[1]
            else:
                return None
            e2 = tm.subst(e, sub)
            if tm.free_syms(e2) & allsyms:
                return None
            out[c] = mk("collect", mk("map", src, tm.lam([elem], e2)))
        return out

    # ------------------------------------------------------------------ dispatch
    def local_override(self, ev, fty, body):
        mac = body.get("mac")
        if not mac:
            return None
        m0 = mac[0]
        name = fty.get("name")
        if m0 == "Derive:PartialEq":
            if name == "eq":
                return lambda ev, fr, prog, fty, args, cx: tm.eq(_deref(ev, args[0]), _deref(ev, args[1]))
            if name == "ne":
                return lambda ev, fr, prog, fty, args, cx: tm.ne(_deref(ev, args[0]), _deref(ev, args[1]))
        if m0 == "Derive:Clone":
            return lambda ev, fr, prog, fty, args, cx: _deref(ev, args[0])
        if m0 == "Derive:Debug":
            def dbg(ev, fr, prog, fty, args, cx):
                v = _deref(ev, args[0])
                k = ev.type_key(prog, cx["arg_tys"][0], fr.genv if fr else {}) if cx.get("arg_tys") else "?"
                if len(args) > 1 and is_ref(args[1]):
                    pl = place_of_ref(args[1])
                    ev.write(pl, mk("fmt_append", ev.read(pl), mk("debug", k, v)))
                return tm.ok(tm.UNIT)
            return dbg
        if m0 in ("Derive:Hash", "Derive:Eq"):
            return lambda ev, fr, prog, fty, args, cx: tm.UNIT
        if m0 in ("Derive:PartialOrd", "Derive:Ord"):
            return lambda ev, fr, prog, fty, args, cx: mk("cmp", name, *[_deref(ev, a) for a in args])
        if m0 in ("Derive:Serialize", "Derive:Deserialize"):
            return lambda ev, fr, prog, fty, args, cx: mk("serde", name, *[_deref(ev, a) for a in args])
        return None

    def extern_const(self, ev, e):
        p = e["path"]
        if p.startswith("exitcode::"):
            n = p.split("::")[-1]
            if n in EXIT_CODES:
                return tm.num(EXIT_CODES[n])
        if p.endswith("f32::EPSILON"):
            return mk("const", "f32::EPSILON")
        return mk("const", p)

    def call(self, ev, fr, prog, fty, path, args, cx):
        name = fty["path"]
        m = self.table.get(name)
        if m is None and fty.get("resolved"):
            m = self.table.get(fty["resolved"]["path"])
        if m is None:
            short = _short(name)
            m = self.table.get(short)
        if m is not None:
            r = m(ev, fr, prog, fty, args, cx)
            if r is not NotImplemented:
                return r
        return self.opaque_call(ev, fty, name, args, cx)

    def opaque_call(self, ev, fty, name, args, cx):
        self.opaque[name] = self.opaque.get(name, 0) + 1
        # what a mutable argument held before the call is part of the summary (trailing `prior` args)
        extra = [mk("prior", i, ev.read(place_of_ref(a))) for i, a in enumerate(args) if is_ref(a)]
        out = mk("call", name, *(list(args) + extra))
        for i, a in enumerate(args):
            if is_ref(a):
                ev.write(place_of_ref(a), mk("havoc", out, i))
            elif isinstance(a, T):
                # a mutable borrow wrapped in an iterator adaptor: what it reaches may be written by the callee
                for sub in tm.subterms(a):
                    if sub.op in ("iter_mut", "values_mut") and sub.a and is_ref(sub.a[0]):
                        ev.write(place_of_ref(sub.a[0]), mk("havoc", out, i))
        return out

    def reg(self, *names):
        def deco(f):
            for n in names:
                self.table[n] = f
            return f
        return deco

    def _register(self):
        from . import stdmodels
        stdmodels.register(self)


def _is_range0(it):
    """iter(0..n)"""
    return it.op == "iter" and it.a[0].op == "adt" and it.a[0].a[0] == "Range" and len(it.a[0].a) == 4 \
        and it.a[0].a[2] is tm.ZERO


def _let_fields(x):
    """Name the computed scalar fields of a pushed record: the algebra keeps them as atoms
    (with their definition attached) instead of expanding large derived expressions."""
    if x.op != "adt":
        return x
    args = list(x.a[:2])
    for f in x.a[2:]:
        if isinstance(f, T) and f.op in ("add", "sub", "mul", "div", "ite", "proj", "sum") and tm.size(f) > 40:
            args.append(mk("let", f))
        else:
            args.append(f)
    return mk("adt", *args)


_VOPS = {"add": "add", "sub": "sub", "mul": "mul", "div": "div", "min": "min", "max": "max"}


def _as_vop(it):
    """collect(map(zip(iter A, iter B), λp. p.0 op p.1)) -> vop(op, A, B)"""
    if it.op != "map" or it.a[0].op != "zip":
        return None
    za, zb = it.a[0].a
    if za.op != "iter" or zb.op != "iter":
        return None
    l = it.a[1]
    level, n, body = l.a
    if n != 1 or body.op not in _VOPS or len(body.a) != 2:
        return None
    p = mk("bv", level, 0)
    x, y = body.a
    if x is tm.tproj(p, 0) and y is tm.tproj(p, 1):
        return tm.vop(body.op, za.a[0], zb.a[0])
    if x is tm.tproj(p, 1) and y is tm.tproj(p, 0):
        return tm.vop(body.op, zb.a[0], za.a[0])
    return None


def _deref(ev, a):
    if is_ref(a):
        return ev.read(place_of_ref(a))
    return a


def fold_result(info, i):
    return mk("foldres", info["uid"], i)


def _frames_of(ev):
    # frames are not tracked globally; returns inside loops are found through the frame chain
    return list(getattr(ev, "active_frames", []))


def _snapshot_returns(ev):
    return [(f, len(f.returns)) for f in _frames_of(ev)]


def _restore_returns(ev, snap):
    for f, n in snap:
        del f.returns[n:]


def _store_unloop(rs, pre, cells, uid):
    s = rs.copy()
    return s


def _short(name):
    # "std::collections::HashMap::<K, V, S, A>::insert" -> "HashMap::insert"
    import re
    n = re.sub(r"<[^<>]*>", "", name)
    n = re.sub(r"<[^<>]*>", "", n)
    n = n.replace("::::", "::")
    parts = [p for p in n.split("::") if p]
    return "::".join(parts[-2:])


_x = tm.fresh("p")
_LAM_FST = tm.lam([_x], tm.tproj(_x, 0))
_LAM_SND = tm.lam([_x], tm.tproj(_x, 1))
_LAM_ID = tm.lam([_x], _x)
