"""The model table: one function per external def path (DESIGN A4)."""
from . import term as tm
from .term import mk
from .sym import BOTTOM, Place, is_ref, place_of_ref, _norm_adt
from .models import (opt_is_some, opt_val, res_is_ok, res_ok, res_err, make_opt, UNDEF,
                     ITER_OPS, _LAM_ID)


def register(M):
    reg = M.reg

    def deref_arg(ev, a):
        """Value behind a (possibly &mut) argument."""
        if is_ref(a):
            return ev.read(place_of_ref(a))
        return a

    def panic(ev, kind, cx, extra=None):
        """Record a panic effect; with `extra` the panic happens only under that condition
        and evaluation continues on the other side."""
        if extra is None:
            ev.effect("panic", kind, cx.get("loc"))
            ev.store.live = False
            return BOTTOM
        d = ev.decide(extra)
        if d is False:
            return None
        if d is True:
            ev.effect("panic", kind, cx.get("loc"))
            ev.store.live = False
            return BOTTOM
        ev.pc.append(extra)
        ev.effect("panic", kind, cx.get("loc"))
        ev.pc.pop()
        ev.pc.append(tm.not_(extra))      # continuing means it did not panic
        return None

    # ---------------------------------------------------------------- identity-like
    @reg("std::clone::Clone::clone", "std::borrow::ToOwned::to_owned", "std::convert::AsRef::as_ref",
         "std::ops::Deref::deref", "std::vec::Vec::<T, A>::as_slice", "std::string::String::as_bytes",
         "std::hint::must_use", "std::option::Option::<T>::as_ref", "std::string::String::as_str",
         "std::borrow::Borrow::borrow", "std::convert::identity", "std::path::Path::display",
         "std::option::Option::<&T>::cloned", "std::option::Option::<&T>::copied",
         "std::iter::Iterator::cloned", "std::iter::Iterator::copied", "std::vec::Vec::<T, A>::as_mut_slice",
         "std::string::String::as_mut_str", "core::str::<impl str>::as_bytes")
    def identity(ev, fr, prog, fty, args, cx):
        res = fty.get("resolved")
        if res and "once_cell" in res["path"]:
            return lazy_deref(ev, fr, prog, fty, args, cx)
        return deref_arg(ev, args[0])

    def lazy_deref(ev, fr, prog, fty, args, cx):
        v = deref_arg(ev, args[0])
        if v.op == "static":
            key = _static_key(ev, v.a[0])
            if key is not None:
                if key in ev.const_cache:
                    v = ev.const_cache[key]
                else:
                    body = ev.prog.body(key)
                    saved = ev.pc
                    ev.pc = []
                    try:
                        v = ev.call_body(ev.prog.owner_program(key), body, [], genv={})
                    finally:
                        ev.pc = saved
                    ev.const_cache[key] = v
        if v.op == "lazy":
            ck = ("lazyval", v.id)
            if ck in ev.const_cache:
                return ev.const_cache[ck]
            saved = ev.pc
            ev.pc = []
            try:
                r = ev.apply(v.a[0], [])
            finally:
                ev.pc = saved
            ev.const_cache[ck] = r
            return r
        return mk("deref", v)

    @reg("once_cell::sync::Lazy::<T, F>::new")
    def lazy_new(ev, fr, prog, fty, args, cx):
        return mk("lazy", args[0])

    @reg("std::ops::DerefMut::deref_mut", "std::option::Option::<T>::as_mut")
    def deref_mut(ev, fr, prog, fty, args, cx):
        return args[0]

    @reg("std::convert::Into::into", "std::convert::From::from")
    def into(ev, fr, prog, fty, args, cx):
        # unresolved/blanket conversions; local From impls are inlined by the caller
        src = cx["arg_tys"][0] if cx.get("arg_tys") else None
        dst = cx.get("ret_ty")
        if src is not None and dst is not None:
            sk = ev.type_key(prog, src, fr.genv if fr else {})
            dk = ev.type_key(prog, dst, fr.genv if fr else {})
            if sk == dk or (sk in ("str", "alloc::string::String") and dk in ("str", "alloc::string::String")):
                return deref_arg(ev, args[0])
            r = find_from_impl(ev, sk, dk)
            if r is not None:
                body = ev.prog.body(r)
                return ev.call_body(ev.prog.owner_program(r), body, args, genv={})
            if dk.startswith("param:") or sk.startswith("param:"):
                return deref_arg(ev, args[0])
        return mk("into", deref_arg(ev, args[0]))

    def find_from_impl(ev, sk, dk):
        for p in (ev.prog, ev.prog.other):
            if p is None:
                continue
            for im in p.impls:
                tr = im.get("trait")
                if tr and tr.endswith("convert::From") and im["self_ty"] >= 0:
                    if ev.type_key(p, im["self_ty"], {}) == dk and im.get("trait_args"):
                        targs = im["trait_args"]
                        if len(targs) >= 2 and ev.type_key(p, targs[1], {}) == sk:
                            for it in im["items"]:
                                if it["name"] == "from":
                                    return it["def"]
        return None

    @reg("std::convert::TryInto::try_into")
    def try_into(ev, fr, prog, fty, args, cx):
        v = args[0]
        # Vec<T> -> [T; N]
        t = prog.types[cx["ret_ty"]]
        n = None
        if t["k"] == "adt" and t["args"]:
            at = prog.types[t["args"][0]]
            if at["k"] == "array":
                try:
                    n = int(at["len"])
                except ValueError:
                    n = None
        if n is not None:
            ln = M.len_of(ev, v)
            ok_c = tm.eq(ln, tm.num(n))
            arr = mk("seq", *[M.index_value(ev, v, tm.num(i)) for i in range(n)])
            return tm.ite(ok_c, tm.ok(arr), tm.err(v))
        return mk("call", "try_into", v)

    @reg("std::string::ToString::to_string")
    def to_string(ev, fr, prog, fty, args, cx):
        v = deref_arg(ev, args[0])
        k = ev.type_key(prog, cx["arg_tys"][0], fr.genv if fr else {}) if cx.get("arg_tys") else "?"
        if k in ("str", "alloc::string::String"):
            return v
        return mk("display", k, v)

    @reg("std::default::Default::default")
    def default(ev, fr, prog, fty, args, cx):
        return M.default_of(ev, prog, cx["ret_ty"])

    # ---------------------------------------------------------------- arithmetic on f32
    def binop(f):
        def m(ev, fr, prog, fty, args, cx):
            return f(deref_arg(ev, args[0]), deref_arg(ev, args[1]))
        return m

    def float_self(ev, fr, prog, fty):
        if not fty.get("args"):
            return False
        k = ev.type_key(prog, fty["args"][0], fr.genv if fr else {})
        return k in ("f32", "f64", "usize", "i32", "u32", "i64", "u64", "u8", "isize")

    def arith(name, f):
        def m(ev, fr, prog, fty, args, cx):
            if float_self(ev, fr, prog, fty):
                return f(deref_arg(ev, args[0]), deref_arg(ev, args[1]))
            return NotImplemented
        M.table[name] = m

    arith("std::ops::Add::add", tm.add)
    arith("std::ops::Sub::sub", tm.sub)
    arith("std::ops::Mul::mul", tm.mul)
    arith("std::ops::Div::div", tm.div)

    def arith_assign(name, f):
        def m(ev, fr, prog, fty, args, cx):
            if float_self(ev, fr, prog, fty) and is_ref(args[0]):
                pl = place_of_ref(args[0])
                ev.write(pl, f(ev.read(pl), deref_arg(ev, args[1])))
                return tm.UNIT
            return NotImplemented
        M.table[name] = m

    arith_assign("std::ops::AddAssign::add_assign", tm.add)
    arith_assign("std::ops::SubAssign::sub_assign", tm.sub)
    arith_assign("std::ops::MulAssign::mul_assign", tm.mul)
    arith_assign("std::ops::DivAssign::div_assign", tm.div)

    @reg("num::Float::min", "core::f32::<impl f32>::min", "std::f32::<impl f32>::min", "std::cmp::Ord::min")
    def fmin(ev, fr, prog, fty, args, cx):
        return mk("min", deref_arg(ev, args[0]), deref_arg(ev, args[1]))

    @reg("num::Float::max", "core::f32::<impl f32>::max", "std::f32::<impl f32>::max", "std::cmp::Ord::max")
    def fmax(ev, fr, prog, fty, args, cx):
        return mk("max", deref_arg(ev, args[0]), deref_arg(ev, args[1]))

    @reg("core::f32::<impl f32>::abs", "std::f32::<impl f32>::abs", "num::Float::abs")
    def fabs(ev, fr, prog, fty, args, cx):
        return mk("abs", deref_arg(ev, args[0]))

    @reg("std::f32::<impl f32>::round", "core::f32::<impl f32>::round")
    def fround(ev, fr, prog, fty, args, cx):
        return mk("round", deref_arg(ev, args[0]))

    @reg("num::Zero::zero")
    def zero(ev, fr, prog, fty, args, cx):
        return tm.ZERO

    @reg("num::One::one")
    def one(ev, fr, prog, fty, args, cx):
        return tm.ONE

    @reg("std::cmp::PartialEq::eq")
    def peq(ev, fr, prog, fty, args, cx):
        return tm.eq(deref_arg(ev, args[0]), deref_arg(ev, args[1]))

    @reg("std::cmp::PartialEq::ne")
    def pne(ev, fr, prog, fty, args, cx):
        return tm.ne(deref_arg(ev, args[0]), deref_arg(ev, args[1]))

    @reg("std::cmp::PartialOrd::gt")
    def pgt(ev, fr, prog, fty, args, cx):
        return tm.gt(deref_arg(ev, args[0]), deref_arg(ev, args[1]))

    @reg("std::cmp::PartialOrd::lt")
    def plt(ev, fr, prog, fty, args, cx):
        return tm.lt(deref_arg(ev, args[0]), deref_arg(ev, args[1]))

    @reg("std::cmp::PartialOrd::ge")
    def pge(ev, fr, prog, fty, args, cx):
        return tm.ge(deref_arg(ev, args[0]), deref_arg(ev, args[1]))

    @reg("std::cmp::PartialOrd::le")
    def ple(ev, fr, prog, fty, args, cx):
        return tm.le(deref_arg(ev, args[0]), deref_arg(ev, args[1]))

    @reg("std::ops::RangeInclusive::<Idx>::new")
    def range_incl(ev, fr, prog, fty, args, cx):
        return tm.adt("RangeInclusive", 0, args[0], args[1])

    @reg("std::ops::RangeInclusive::<Idx>::contains", "std::ops::RangeBounds::contains", "std::ops::Range::<Idx>::contains",
         "std::ops::RangeFrom::<Idx>::contains", "std::ops::RangeTo::<Idx>::contains",
         "std::ops::RangeToInclusive::<Idx>::contains")
    def range_contains(ev, fr, prog, fty, args, cx):
        r = deref_arg(ev, args[0])
        x = deref_arg(ev, args[1])
        if r.op == "adt" and r.a[0] == "RangeInclusive" and len(r.a) >= 4:
            return tm.and_(tm.le(r.a[2], x), tm.le(x, r.a[3]))
        if r.op == "adt" and r.a[0] == "Range" and len(r.a) >= 4:
            return tm.and_(tm.le(r.a[2], x), tm.lt(x, r.a[3]))        # start <= x < end
        if r.op == "adt" and r.a[0] == "RangeFrom" and len(r.a) >= 3:
            return tm.le(r.a[2], x)                                    # start <= x  (the start is included)
        if r.op == "adt" and r.a[0] == "RangeTo" and len(r.a) >= 3:
            return tm.lt(x, r.a[2])
        if r.op == "adt" and r.a[0] == "RangeToInclusive" and len(r.a) >= 3:
            return tm.le(x, r.a[2])
        return mk("range_contains", r, x)

    # ---------------------------------------------------------------- panics / exits
    @reg("core::panicking::panic", "core::panicking::panic_fmt", "std::rt::panic_fmt",
         "core::panicking::assert_failed", "core::panicking::unreachable_display",
         "core::panicking::panic_display", "std::rt::begin_panic", "core::panicking::panic_explicit",
         "core::panicking::assert_failed_inner", "core::panicking::panic_nounwind")
    def do_panic(ev, fr, prog, fty, args, cx):
        mac = cx.get("mac") or []
        kind = "panic"
        for m in mac:
            n = m.split(":")[-1]
            if n in ("unreachable", "assert_eq", "assert", "assert_ne", "panic", "todo", "unimplemented",
                     "debug_assert", "debug_assert_eq"):
                kind = n
        loc = (cx.get("expr") or {}).get("cs") or cx.get("loc")
        ev.effect("panic", kind, loc)
        ev.store.live = False
        return BOTTOM

    @reg("std::process::exit")
    def do_exit(ev, fr, prog, fty, args, cx):
        ev.effect("exit", args[0], cx.get("loc"))
        ev.store.live = False
        return BOTTOM

    @reg("std::process::abort")
    def do_abort(ev, fr, prog, fty, args, cx):
        ev.effect("abort", None, cx.get("loc"))
        ev.store.live = False
        return BOTTOM

    @reg("std::ops::Fn::call", "std::ops::FnMut::call_mut", "std::ops::FnOnce::call_once")
    def fn_call(ev, fr, prog, fty, args, cx):
        f = deref_arg(ev, args[0])
        a = args[1]
        if a.op == "tuple":
            return ev.apply(f, list(a.a), cx)
        return ev.apply(f, [a], cx)

    # ---------------------------------------------------------------- Option / Result
    @reg("std::option::Option::<T>::is_some")
    def is_some(ev, fr, prog, fty, args, cx):
        return opt_is_some(deref_arg(ev, args[0]))

    @reg("std::option::Option::<T>::is_none")
    def is_none(ev, fr, prog, fty, args, cx):
        return tm.not_(opt_is_some(deref_arg(ev, args[0])))

    @reg("std::result::Result::<T, E>::is_ok")
    def is_ok(ev, fr, prog, fty, args, cx):
        return res_is_ok(deref_arg(ev, args[0]))

    @reg("std::result::Result::<T, E>::is_err")
    def is_err(ev, fr, prog, fty, args, cx):
        return tm.not_(res_is_ok(deref_arg(ev, args[0])))

    @reg("std::option::Option::<T>::map")
    def opt_map(ev, fr, prog, fty, args, cx):
        o, f = args
        return ev.branch(opt_is_some(o), lambda: tm.some(ev.apply(f, [opt_val(o)])), lambda: tm.NONE)

    @reg("std::option::Option::<T>::and_then")
    def opt_and_then(ev, fr, prog, fty, args, cx):
        o, f = args
        return ev.branch(opt_is_some(o), lambda: ev.apply(f, [opt_val(o)]), lambda: tm.NONE)

    @reg("std::option::Option::<T>::or_else")
    def opt_or_else(ev, fr, prog, fty, args, cx):
        o, f = args
        return ev.branch(opt_is_some(o), lambda: o, lambda: ev.apply(f, []))

    @reg("std::option::Option::<T>::or")
    def opt_or(ev, fr, prog, fty, args, cx):
        o, d = args
        return tm.ite(opt_is_some(o), o, d)

    @reg("std::option::Option::<T>::filter")
    def opt_filter(ev, fr, prog, fty, args, cx):
        o, f = args
        return ev.branch(opt_is_some(o),
                         lambda: tm.ite(ev.apply(f, [opt_val(o)]), o, tm.NONE), lambda: tm.NONE)

    @reg("std::option::Option::<T>::unwrap_or")
    def opt_unwrap_or(ev, fr, prog, fty, args, cx):
        o, d = args
        return tm.ite(opt_is_some(o), opt_val(o), d)

    @reg("std::option::Option::<T>::unwrap_or_else")
    def opt_unwrap_or_else(ev, fr, prog, fty, args, cx):
        o, f = args
        return ev.branch(opt_is_some(o), lambda: opt_val(o), lambda: ev.apply(f, []))

    @reg("std::option::Option::<T>::unwrap_or_default")
    def opt_unwrap_or_default(ev, fr, prog, fty, args, cx):
        o = args[0]
        return ev.branch(opt_is_some(o), lambda: opt_val(o),
                         lambda: M.default_of(ev, prog, cx["ret_ty"], fr.genv if fr else None))

    @reg("std::option::Option::<T>::ok_or_else")
    def opt_ok_or_else(ev, fr, prog, fty, args, cx):
        o, f = args
        return ev.branch(opt_is_some(o), lambda: tm.ok(opt_val(o)), lambda: tm.err(ev.apply(f, [])))

    @reg("std::option::Option::<T>::ok_or")
    def opt_ok_or(ev, fr, prog, fty, args, cx):
        o, e = args
        return tm.ite(opt_is_some(o), tm.ok(opt_val(o)), tm.err(e))

    @reg("std::option::Option::<T>::map_or")
    def opt_map_or(ev, fr, prog, fty, args, cx):
        o, d, f = args
        return ev.branch(opt_is_some(o), lambda: ev.apply(f, [opt_val(o)]), lambda: d)

    @reg("std::option::Option::<T>::map_or_else")
    def opt_map_or_else(ev, fr, prog, fty, args, cx):
        o, df, f = args
        return ev.branch(opt_is_some(o), lambda: ev.apply(f, [opt_val(o)]), lambda: ev.apply(df, []))

    @reg("std::option::Option::<T>::is_some_and")
    def opt_is_some_and(ev, fr, prog, fty, args, cx):
        o, f = args
        return ev.branch(opt_is_some(o), lambda: ev.apply(f, [opt_val(o)]), lambda: tm.FALSE)

    @reg("std::option::Option::<T>::is_none_or")
    def opt_is_none_or(ev, fr, prog, fty, args, cx):
        o, f = args
        return ev.branch(opt_is_some(o), lambda: ev.apply(f, [opt_val(o)]), lambda: tm.TRUE)

    @reg("std::option::Option::<T>::zip")
    def opt_zip(ev, fr, prog, fty, args, cx):
        a, b = args
        return tm.ite(tm.and_(opt_is_some(a), opt_is_some(b)), tm.some(tm.tup(opt_val(a), opt_val(b))), tm.NONE)

    @reg("std::option::Option::<T>::and")
    def opt_and(ev, fr, prog, fty, args, cx):
        a, b = args
        return tm.ite(opt_is_some(a), b, tm.NONE)

    @reg("std::option::Option::<T>::xor")
    def opt_xor(ev, fr, prog, fty, args, cx):
        a, b = args
        return tm.ite(opt_is_some(a), tm.ite(opt_is_some(b), tm.NONE, a), b)

    @reg("std::result::Result::<T, E>::map_or")
    def res_map_or(ev, fr, prog, fty, args, cx):
        r, d, f = args
        return ev.branch(res_is_ok(r), lambda: ev.apply(f, [res_ok(r)]), lambda: d)

    @reg("std::result::Result::<T, E>::map_or_else")
    def res_map_or_else(ev, fr, prog, fty, args, cx):
        r, df, f = args
        return ev.branch(res_is_ok(r), lambda: ev.apply(f, [res_ok(r)]), lambda: ev.apply(df, [res_err(r)]))

    @reg("std::result::Result::<T, E>::is_ok_and")
    def res_is_ok_and(ev, fr, prog, fty, args, cx):
        r, f = args
        return ev.branch(res_is_ok(r), lambda: ev.apply(f, [res_ok(r)]), lambda: tm.FALSE)

    @reg("std::result::Result::<T, E>::is_err_and")
    def res_is_err_and(ev, fr, prog, fty, args, cx):
        r, f = args
        return ev.branch(res_is_ok(r), lambda: tm.FALSE, lambda: ev.apply(f, [res_err(r)]))

    @reg("std::result::Result::<T, E>::err")
    def res_err_opt(ev, fr, prog, fty, args, cx):
        r = args[0]
        return tm.ite(res_is_ok(r), tm.NONE, tm.some(res_err(r)))

    @reg("std::option::Option::<T>::unwrap", "std::option::Option::<T>::expect")
    def opt_unwrap(ev, fr, prog, fty, args, cx):
        o = args[0]
        r = panic(ev, "unwrap-none", cx, extra=tm.not_(opt_is_some(o)))
        if r is BOTTOM:
            return BOTTOM
        return opt_val(o)

    @reg("std::option::Option::<T>::take")
    def opt_take(ev, fr, prog, fty, args, cx):
        if is_ref(args[0]):
            pl = place_of_ref(args[0])
            v = ev.read(pl)
            ev.write(pl, tm.NONE)
            return v
        return args[0]

    @reg("std::result::Result::<T, E>::ok")
    def res_ok_(ev, fr, prog, fty, args, cx):
        r = args[0]
        return tm.ite(res_is_ok(r), tm.some(res_ok(r)), tm.NONE)

    @reg("std::result::Result::<T, E>::map")
    def res_map(ev, fr, prog, fty, args, cx):
        r, f = args
        return ev.branch(res_is_ok(r), lambda: tm.ok(ev.apply(f, [res_ok(r)])), lambda: tm.err(res_err(r)))

    @reg("std::result::Result::<T, E>::map_err")
    def res_map_err(ev, fr, prog, fty, args, cx):
        r, f = args
        return ev.branch(res_is_ok(r), lambda: tm.ok(res_ok(r)), lambda: tm.err(ev.apply(f, [res_err(r)])))

    @reg("std::result::Result::<T, E>::and_then")
    def res_and_then(ev, fr, prog, fty, args, cx):
        r, f = args
        return ev.branch(res_is_ok(r), lambda: ev.apply(f, [res_ok(r)]), lambda: tm.err(res_err(r)))

    @reg("std::result::Result::<T, E>::or_else")
    def res_or_else(ev, fr, prog, fty, args, cx):
        r, f = args
        return ev.branch(res_is_ok(r), lambda: tm.ok(res_ok(r)), lambda: ev.apply(f, [res_err(r)]))

    @reg("std::result::Result::<T, E>::unwrap_or")
    def res_unwrap_or(ev, fr, prog, fty, args, cx):
        r, d = args
        return tm.ite(res_is_ok(r), res_ok(r), d)

    @reg("std::result::Result::<T, E>::unwrap_or_else")
    def res_unwrap_or_else(ev, fr, prog, fty, args, cx):
        r, f = args
        return ev.branch(res_is_ok(r), lambda: res_ok(r), lambda: ev.apply(f, [res_err(r)]))

    @reg("std::result::Result::<T, E>::unwrap_or_default")
    def res_unwrap_or_default(ev, fr, prog, fty, args, cx):
        r = args[0]
        return ev.branch(res_is_ok(r), lambda: res_ok(r), lambda: M.default_of(ev, prog, cx["ret_ty"]))

    @reg("std::result::Result::<T, E>::unwrap", "std::result::Result::<T, E>::expect")
    def res_unwrap(ev, fr, prog, fty, args, cx):
        r = args[0]
        p = panic(ev, "unwrap-err", cx, extra=tm.not_(res_is_ok(r)))
        if p is BOTTOM:
            return BOTTOM
        return res_ok(r)

    @reg("std::ops::Try::branch")
    def try_branch(ev, fr, prog, fty, args, cx):
        r = args[0]
        res = (fty.get("resolved") or {}).get("path", "")
        if "Option" in res:
            return tm.ite(opt_is_some(r), tm.adt("ControlFlow", 0, opt_val(r)),
                          tm.adt("ControlFlow", 1, tm.NONE))
        return tm.ite(res_is_ok(r), tm.adt("ControlFlow", 0, res_ok(r)),
                      tm.adt("ControlFlow", 1, tm.err(res_err(r))))

    @reg("std::ops::FromResidual::from_residual")
    def from_residual(ev, fr, prog, fty, args, cx):
        r = args[0]
        # residual Err(e) -> Err(From::from(e)); identity From unless a local From impl exists
        res = (fty.get("resolved") or {})
        if r.op == "adt" and r.a[0] == "Result" and r.a[1] == 1:
            e = r.a[2]
            targs = res.get("args") or []
            if len(targs) >= 3:
                sk = ev.type_key(prog, targs[2], fr.genv if fr else {}) if False else None
            conv = convert_error(ev, fr, prog, res, e)
            return tm.err(conv)
        return r

    def convert_error(ev, fr, prog, res, e):
        targs = res.get("args") or []
        if len(targs) >= 3:
            # args: [T, F (target error), E (source error)]
            p = prog
            try:
                dk = ev.type_key(p, targs[1], {})
                sk = ev.type_key(p, targs[2], {})
            except Exception:
                return e
            if dk != sk:
                r = find_from_impl(ev, sk, dk)
                if r is not None:
                    body = ev.prog.body(r)
                    return ev.call_body(ev.prog.owner_program(r), body, [e], genv={})
                return mk("into", e)
        return e

    # ---------------------------------------------------------------- Vec / slice
    @reg("std::vec::Vec::<T>::new", "std::vec::Vec::<T>::with_capacity")
    def vec_new(ev, fr, prog, fty, args, cx):
        return mk("seq")

    @reg("std::vec::from_elem")
    def from_elem(ev, fr, prog, fty, args, cx):
        return mk("rep", args[0], args[1])

    @reg("alloc::intrinsics::write_box_via_move")
    def write_box(ev, fr, prog, fty, args, cx):
        return args[1]

    @reg("std::boxed::box_assume_init_into_vec_unsafe", "std::slice::<impl [T]>::into_vec",
         "std::boxed::Box::<T>::new", "std::slice::<impl [T]>::to_vec")
    def box_into_vec(ev, fr, prog, fty, args, cx):
        return deref_arg(ev, args[0])

    @reg("std::boxed::Box::<T>::new_uninit")
    def box_uninit(ev, fr, prog, fty, args, cx):
        return mk("uninit_box")

    @reg("std::vec::Vec::<T, A>::push")
    def vec_push(ev, fr, prog, fty, args, cx):
        pl = place_of_ref(args[0])
        v = ev.read(pl)
        if v.op == "seq":
            ev.write(pl, mk("seq", *(list(v.a) + [args[1]])))
        else:
            ev.write(pl, mk("push", v, args[1]))
        return tm.UNIT

    @reg("std::vec::Vec::<T, A>::len", "core::slice::<impl [T]>::len", "std::collections::HashSet::<T, S, A>::len",
         "std::collections::HashMap::<K, V, S, A>::len", "core::str::<impl str>::len", "std::string::String::len")
    def vec_len(ev, fr, prog, fty, args, cx):
        v = deref_arg(ev, args[0])
        if v.op == "eset":
            r = tm.ZERO
            for p in v.a[1:]:
                r = tm.add(r, tm.ite(p, tm.ONE, tm.ZERO))
            return r
        if v.op == "emap":
            r = tm.ZERO
            for (_i, _k, p, _v) in M.emap_entries(v):
                r = tm.add(r, tm.ite(p, tm.ONE, tm.ZERO))
            return r
        return M.len_of(ev, v)

    @reg("std::vec::Vec::<T, A>::is_empty", "core::slice::<impl [T]>::is_empty", "std::string::String::is_empty",
         "core::str::<impl str>::is_empty", "std::collections::HashMap::<K, V, S, A>::is_empty",
         "std::collections::HashSet::<T, S, A>::is_empty")
    def is_empty(ev, fr, prog, fty, args, cx):
        v = deref_arg(ev, args[0])
        if v.op == "seq":
            return tm.boolean(len(v.a) == 0)
        if v.op == "str":
            return tm.boolean(v.a[0] == "")
        if v.op == "emap":
            return tm.not_(tm.or_(*[p for (_i, _k, p, _v) in M.emap_entries(v)]))
        if v.op == "eset":
            return tm.not_(tm.or_(*v.a[1:]))
        if v.op == "push":
            return tm.FALSE
        if v.op == "empty_map":
            return tm.TRUE
        if v.op == "ite":
            return tm.ite(v.a[0], is_empty(ev, fr, prog, fty, [v.a[1]], cx), is_empty(ev, fr, prog, fty, [v.a[2]], cx))
        return mk("is_empty", v)

    @reg("std::vec::Vec::<T, A>::retain")
    def vec_retain(ev, fr, prog, fty, args, cx):
        pl = place_of_ref(args[0])
        v = ev.read(pl)
        l, _ = ev.reify(args[1], 1)
        ev.write(pl, mk("retain", v, l))
        return tm.UNIT

    @reg("std::slice::<impl [T]>::join", "std::slice::<impl [S]>::join")
    def join(ev, fr, prog, fty, args, cx):
        return mk("join", deref_arg(ev, args[0]), deref_arg(ev, args[1]))

    @reg("std::vec::Vec::<T, A>::dedup")
    def vec_dedup(ev, fr, prog, fty, args, cx):
        # removes *consecutive* repeats: on a sorted list that is the set of values in order, on any other list the
        # result depends on the order (the rule packs look at what it is applied to)
        pl = place_of_ref(args[0])
        ev.write(pl, mk("dedup_consecutive", ev.read(pl)))
        return tm.UNIT

    @reg("std::slice::<impl [T]>::sort", "std::slice::<impl [T]>::sort_unstable")
    def sort(ev, fr, prog, fty, args, cx):
        pl = place_of_ref(args[0])
        ev.write(pl, mk("sorted", ev.read(pl)))
        return tm.UNIT

    @reg("std::slice::<impl [T]>::sort_by_key")
    def sort_by_key(ev, fr, prog, fty, args, cx):
        pl = place_of_ref(args[0])
        l, _ = ev.reify(args[1], 1)
        ev.write(pl, mk("sort_by_key", ev.read(pl), l))
        return tm.UNIT

    @reg("core::slice::<impl [T]>::contains")
    def slice_contains(ev, fr, prog, fty, args, cx):
        v = deref_arg(ev, args[0])
        x = deref_arg(ev, args[1])
        if v.op == "seq":
            return tm.or_(*[tm.eq(x, e) for e in v.a])
        if v.op == "dedup" and v.a[0].op == "seq":
            # the distinct values of an iterator contain c iff some element equals c
            y = tm.fresh("y")
            return tm.or_(*([tm.eq(x, e) for e in v.a[0].a] + [M.any_term(v.a[1], tm.lam([y], tm.eq(y, x)))]))
        return mk("contains", v, x)

    @reg("std::collections::HashSet::<T, S, A>::contains")
    def set_contains(ev, fr, prog, fty, args, cx):
        v = deref_arg(ev, args[0])
        x = deref_arg(ev, args[1])
        if v.op == "eset":
            return M.map_contains(ev, v, x)
        return mk("contains", v, x)

    @reg("std::collections::HashSet::<T, S, A>::insert")
    def set_insert(ev, fr, prog, fty, args, cx):
        pl = place_of_ref(args[0])
        s = ev.read(pl)
        ev.write(pl, M.set_insert(ev, s, args[1]))
        return mk("set_insert_new", s, args[1])

    @reg("std::collections::HashSet::<T>::new")
    def set_new(ev, fr, prog, fty, args, cx):
        ktid = fty["args"][0]
        if prog.fieldless_enum_variants(ktid) is not None:
            return M.empty_eset(prog, ktid)
        return mk("empty_set")

    @reg("core::slice::<impl [T]>::first")
    def slice_first(ev, fr, prog, fty, args, cx):
        v = deref_arg(ev, args[0])
        return slice_get_impl(ev, v, tm.ZERO)

    @reg("core::slice::<impl [T]>::last")
    def slice_last(ev, fr, prog, fty, args, cx):
        v = deref_arg(ev, args[0])
        if v.op == "seq":
            return tm.some(v.a[-1]) if v.a else tm.NONE
        return make_opt(tm.lt(tm.ZERO, M.len_of(ev, v)), mk("last_val", v))

    def slice_get_impl(ev, v, i):
        if v.op == "seq" and i.op == "num":
            n = i.a[0]
            return tm.some(v.a[n]) if 0 <= n < len(v.a) else tm.NONE
        return make_opt(tm.lt(i, M.len_of(ev, v)), M.index_value(ev, v, i))

    @reg("core::slice::<impl [T]>::split_first")
    def slice_split_first(ev, fr, prog, fty, args, cx):
        v = deref_arg(ev, args[0])
        return make_opt(tm.lt(tm.ZERO, M.len_of(ev, v)), tm.tup(M.index_value(ev, v, tm.ZERO), mk("slice_from", v, tm.ONE)))

    @reg("core::slice::<impl [T]>::get")
    def slice_get(ev, fr, prog, fty, args, cx):
        return slice_get_impl(ev, deref_arg(ev, args[0]), deref_arg(ev, args[1]))

    @reg("std::ops::Index::index")
    def index(ev, fr, prog, fty, args, cx):
        v = deref_arg(ev, args[0])
        i = deref_arg(ev, args[1])
        res = (fty.get("resolved") or {}).get("path", "")
        if "HashMap" in res:
            c = M.map_contains(ev, v, i)
            p = panic(ev, "map-index", cx, extra=tm.not_(c))
            if p is BOTTOM:
                return BOTTOM
            return M.map_index(ev, v, i)
        ln = M.len_of(ev, v)
        if i.op == "adt" and i.a[0] in ("RangeFrom", "Range", "RangeTo", "RangeInclusive", "RangeFull"):
            if i.a[0] == "RangeFrom":
                cond = tm.lt(ln, i.a[2])
                if "str" in res and i.a[2].op == "num":
                    # s[n..] on a path where s.starts_with(<literal of n bytes>) holds: cannot be out of range, and is
                    # the text without that prefix
                    for g in ev.pc:
                        if g.op == "starts_with" and g.a[0] is v and g.a[1].op in ("char", "str") and isinstance(g.a[1].a[0], str) \
                                and len(g.a[1].a[0].encode("utf-8")) == i.a[2].a[0]:
                            return mk("strip_prefix_val", v, g.a[1])
                kind = "str-range-index" if "str" in res else "range-index"
                p = panic(ev, kind, cx, extra=cond)
                if p is BOTTOM:
                    return BOTTOM
                return mk("slice_from", v, i.a[2])
            ev.effect("panic", "range-index", cx.get("loc"))
            return mk("subrange", v, i)
        p = panic(ev, "index", cx, extra=tm.le(ln, i))
        if p is BOTTOM:
            return BOTTOM
        return M.index_value(ev, v, i)

    @reg("std::ops::IndexMut::index_mut")
    def index_mut(ev, fr, prog, fty, args, cx):
        pl = place_of_ref(args[0])
        v = ev.read(pl)
        i = deref_arg(ev, args[1])
        p = panic(ev, "index", cx, extra=tm.le(M.len_of(ev, v), i))
        if p is BOTTOM:
            return BOTTOM
        return pl.ext(("idx", i)).ref()

    # ---------------------------------------------------------------- HashMap
    @reg("std::collections::HashMap::<K, V>::new")
    def map_new(ev, fr, prog, fty, args, cx):
        ktid = fty["args"][0]
        if prog.fieldless_enum_variants(ktid) is not None:
            return M.empty_emap(prog, ktid, ev, fty["args"][1] if len(fty["args"]) > 1 else None)
        return mk("empty_map")

    @reg("std::collections::HashMap::<K, V, S, A>::insert")
    def map_insert(ev, fr, prog, fty, args, cx):
        pl = place_of_ref(args[0])
        m = ev.read(pl)
        old = M.map_get(ev, m, args[1])
        ev.write(pl, M.map_insert(ev, m, args[1], args[2]))
        return old

    @reg("<std::collections::HashMap<K, V, S, A> as std::iter::Extend<(K, V)>>::extend",
         "<std::collections::HashMap<K, V, S, A> as std::iter::Extend<(&'a K, &'a V)>>::extend")
    def map_extend(ev, fr, prog, fty, args, cx):
        """m.extend(iter of (k, v)): successive inserts (explicit for an unrolled iterator)."""
        pl = place_of_ref(args[0])
        m = ev.read(pl)
        it = itv(ev, args[1])
        if it.op == "eiter":
            for g, x in M.eiter_items(it):
                k, v = tm.tproj(x, 0), tm.tproj(x, 1)
                m = tm.ite(g, M.map_insert(ev, m, k, v), m)
            ev.write(pl, m)
            return tm.UNIT
        ev.write(pl, mk("mapextend", m, it))
        return tm.UNIT

    @reg("std::collections::HashMap::<K, V, S, A>::remove")
    def map_remove(ev, fr, prog, fty, args, cx):
        pl = place_of_ref(args[0])
        m = ev.read(pl)
        k = deref_arg(ev, args[1])
        old = M.map_get(ev, m, k)
        ev.write(pl, M.map_remove(ev, m, k))
        return old

    @reg("std::collections::HashMap::<K, V, S, A>::get")
    def map_get(ev, fr, prog, fty, args, cx):
        return M.map_get(ev, deref_arg(ev, args[0]), deref_arg(ev, args[1]))

    @reg("std::collections::HashMap::<K, V, S, A>::get_mut")
    def map_get_mut(ev, fr, prog, fty, args, cx):
        pl = place_of_ref(args[0])
        m = ev.read(pl)
        k = deref_arg(ev, args[1])
        return make_opt(M.map_contains(ev, m, k), pl.ext(("mapval", k)).ref())

    @reg("std::collections::HashMap::<K, V, S, A>::contains_key")
    def map_contains_key(ev, fr, prog, fty, args, cx):
        return M.map_contains(ev, deref_arg(ev, args[0]), deref_arg(ev, args[1]))

    @reg("std::collections::HashMap::<K, V, S, A>::entry")
    def map_entry(ev, fr, prog, fty, args, cx):
        return mk("entry", args[0], args[1])

    def entry_keys(ev, m, k):
        """[(key const or k, condition that k is this key)] to unroll an entry operation."""
        if m.op == "emap":
            i = M.key_index(m, k)
            if i is not None:
                return [(k, tm.TRUE)]
            return [(kc, tm.eq(k, kc)) for (_i, kc, _p, _v) in M.emap_entries(m)]
        return [(k, tm.TRUE)]

    @reg("std::collections::hash_map::Entry::<'a, K, V, A>::and_modify")
    def entry_and_modify(ev, fr, prog, fty, args, cx):
        ent, f = args
        pl = place_of_ref(ent.a[0])
        k = ent.a[1]
        m = ev.read(pl)
        for kc, cond in entry_keys(ev, m, k):
            present = M.map_contains(ev, ev.read(pl), kc)
            g = tm.and_(cond, present)

            def run(kc=kc):
                ev.apply(f, [pl.ext(("mapval", kc)).ref()])
                return tm.UNIT
            ev.branch(g, run, lambda: tm.UNIT)
        return ent

    def entry_or_insert_impl(ev, ent, make_default, is_default=False):
        pl = place_of_ref(ent.a[0])
        k = ent.a[1]
        m = ev.read(pl)
        if is_default and m.op == "emap" and M.emap_default(m) is not None:
            d = M.emap_default(m)
            if make_default() is d:
                # absent slots already hold the default: only the presence flag changes
                for kc, cond in entry_keys(ev, m, k):
                    cur = ev.read(pl)
                    i = M.key_index(cur, kc)
                    dc = ev.decide(cond)
                    if dc is False:
                        continue
                    newp = tm.or_(cond, cur.a[1 + 2 * i]) if dc is None else tm.TRUE
                    ev.write(pl, M.emap_set(cur, i, newp, cur.a[2 + 2 * i]))
                return pl.ext(("mapval", k)).ref()
        for kc, cond in entry_keys(ev, m, k):
            present = M.map_contains(ev, ev.read(pl), kc)
            g = tm.and_(cond, tm.not_(present))

            def run(kc=kc):
                ev.write(pl.ext(("mapval", kc)), make_default())
                return tm.UNIT
            ev.branch(g, run, lambda: tm.UNIT)
        return pl.ext(("mapval", k)).ref()

    @reg("std::collections::hash_map::Entry::<'a, K, V, A>::or_insert_with")
    def entry_or_insert_with(ev, fr, prog, fty, args, cx):
        ent, f = args
        return entry_or_insert_impl(ev, ent, lambda: ev.apply(f, []))

    @reg("std::collections::hash_map::Entry::<'a, K, V, A>::or_insert")
    def entry_or_insert(ev, fr, prog, fty, args, cx):
        ent, v = args
        return entry_or_insert_impl(ev, ent, lambda: v)

    @reg("std::collections::hash_map::Entry::<'a, K, V>::or_default",
         "std::collections::hash_map::Entry::<'a, K, V, A>::or_default")
    def entry_or_default(ev, fr, prog, fty, args, cx):
        ent = args[0]
        vt = fty["args"][1]
        return entry_or_insert_impl(ev, ent, lambda: M.default_of(ev, prog, vt, fr.genv if fr else None), is_default=True)

    @reg("std::collections::HashMap::<K, V, S, A>::iter", "std::collections::HashSet::<T, S, A>::iter",
         "core::slice::<impl [T]>::iter", "std::iter::IntoIterator::into_iter")
    def iter_(ev, fr, prog, fty, args, cx):
        a = args[0]
        if is_ref(a):
            res = (fty.get("resolved") or {}).get("path", "")
            v = ev.read(place_of_ref(a))
            if "&'a mut" in res or "IterMut" in res:
                if v.op in ("seq", "emap"):
                    return iter_mut_explicit(ev, place_of_ref(a), v)
                return mk("iter_mut", a)
            if v.op == "dedup":
                d = dedup_iter(ev, prog, fty, v)
                if d is not None:
                    return d
            return M.to_iter(ev, v)
        if isinstance(a, tm.T) and a.op == "dedup":
            d = dedup_iter(ev, prog, fty, a)
            if d is not None:
                return d
        return M.to_iter(ev, a)

    def dedup_iter(ev, prog, fty, v):
        """Iterating the distinct values of a list of fieldless-enum values: one (gated) item per variant.  The order
        (first occurrence) is not represented: the iterator is marked like a hash-ordered one, so that order-sensitive
        consumers are examined by the same rules."""
        if not (v.a[0].op == "seq" and not v.a[0].a):
            return None
        for tid in fty.get("args", []) + ((fty.get("resolved") or {}).get("args", [])):
            try:
                t = prog.types[prog.peel_refs(tid)]
            except Exception:
                continue
            el = None
            if t.get("k") == "adt" and str(t.get("path", "")).endswith("vec::Vec") and t.get("args"):
                el = t["args"][0]
            elif t.get("k") == "slice":
                el = t.get("t")
            if el is None:
                continue
            vs = prog.fieldless_enum_variants(el)
            if vs is None:
                continue
            path = _norm_adt(prog.types[prog.peel_refs(el)]["path"])
            y = tm.fresh("y")
            args_ = []
            for i, _n in vs:
                kc = tm.adt(path, i)
                args_.extend([M.any_term(v.a[1], tm.lam([y], tm.eq(y, kc))), kc])
            return M.mark_hashy(mk("eiter", *args_))
        return None

    def iter_mut_explicit(ev, pl, v, mode="iter"):
        args = []
        if v.op == "seq":
            for i in range(len(v.a)):
                args.extend([tm.TRUE, pl.ext(("idx", tm.num(i))).ref()])
        else:
            for (i, kc, p, val) in M.emap_entries(v):
                if p is tm.FALSE:
                    continue
                r = pl.ext(("mapval", kc)).ref()
                args.extend([p, r if mode == "values" else tm.tup(kc, r)])
        return mk("eiter", *args)

    @reg("core::slice::<impl [T]>::iter_mut")
    def iter_mut(ev, fr, prog, fty, args, cx):
        a = args[0]
        if is_ref(a):
            v = ev.read(place_of_ref(a))
            if v.op == "seq":
                return iter_mut_explicit(ev, place_of_ref(a), v)
            return mk("iter_mut", a)
        return M.to_iter(ev, a)

    @reg("std::collections::HashMap::<K, V, S, A>::keys")
    def map_keys(ev, fr, prog, fty, args, cx):
        return M.to_iter(ev, deref_arg(ev, args[0]), "keys")

    @reg("std::collections::HashMap::<K, V, S, A>::values")
    def map_values(ev, fr, prog, fty, args, cx):
        return M.to_iter(ev, deref_arg(ev, args[0]), "values")

    @reg("std::collections::HashMap::<K, V, S, A>::values_mut")
    def map_values_mut(ev, fr, prog, fty, args, cx):
        a = args[0]
        if is_ref(a):
            pl = place_of_ref(a)
            v = ev.read(pl)
            if v.op == "emap":
                return iter_mut_explicit(ev, pl, v, "values")
            return mk("values_mut", a)
        return M.to_iter(ev, a, "values")

    # ---------------------------------------------------------------- Iterator
    def itv(ev, a):
        v = deref_arg(ev, a)
        if v.op in ITER_OPS:
            return v
        return M.to_iter(ev, v)

    @reg("std::iter::Iterator::map")
    def it_map(ev, fr, prog, fty, args, cx):
        return M.it_map(ev, itv(ev, args[0]), args[1])

    @reg("std::iter::Iterator::filter")
    def it_filter(ev, fr, prog, fty, args, cx):
        return M.it_filter(ev, itv(ev, args[0]), args[1])

    @reg("std::iter::Iterator::filter_map")
    def it_filter_map(ev, fr, prog, fty, args, cx):
        return M.it_filter_map(ev, itv(ev, args[0]), args[1])

    @reg("std::iter::Iterator::zip")
    def it_zip(ev, fr, prog, fty, args, cx):
        return M.it_zip(ev, itv(ev, args[0]), itv(ev, args[1]))

    @reg("std::iter::Iterator::take")
    def it_take(ev, fr, prog, fty, args, cx):
        it = itv(ev, args[0])
        n = args[1]
        if it.op == "eiter":
            M.order_event(ev, "take", it)
        if it.op == "eiter" and n.op == "num":
            items = M.eiter_items(it)
            if all(g is tm.TRUE for g, _ in items):
                out = []
                for g, x in items[: n.a[0]]:
                    out.extend([g, x])
                return mk("eiter", *out)
        return mk("take", it, n)

    @reg("std::iter::Iterator::take_while", "std::iter::Iterator::skip_while", "std::iter::Iterator::map_while",
         "std::iter::Iterator::step_by")
    def it_positional_adaptor(ev, fr, prog, fty, args, cx):
        # prefix / suffix / stride of a sequence: an order-sensitive adaptor.  Kept as a term of its own (the
        # rule packs list it among the positional operators); elements reached through `iter_mut` may be written
        it = itv(ev, args[0])
        M.order_event(ev, fty["path"].rsplit("::", 1)[-1], it) if it.op == "eiter" else None
        for sub in tm.subterms(it):
            if sub.op in ("iter_mut", "values_mut") and is_ref(sub.a[0]):
                pl = place_of_ref(sub.a[0])
                ev.write(pl, mk("havoc", mk("call", fty["path"], ev.read(pl)), 0))
        return mk(fty["path"].rsplit("::", 1)[-1], it, *args[1:])

    @reg("std::iter::Iterator::partition")
    def it_partition(ev, fr, prog, fty, args, cx):
        # (elements satisfying p, the others), each in the order of the source
        it = itv(ev, args[0])
        if it.op == "eiter":
            return NotImplemented
        l, changed = ev.reify(args[1], 1, elem_of=it)
        if changed:
            return NotImplemented
        x = tm.fresh("pe")
        neg = tm.lam([x], tm.not_(tm.apply_lam(l, [x])))
        return tm.tup(M.collect_vec(mk("filter", it, l)), M.collect_vec(mk("filter", it, neg)))

    @reg("std::iter::Iterator::skip")
    def it_skip(ev, fr, prog, fty, args, cx):
        return mk("skip", itv(ev, args[0]), args[1])

    @reg("std::iter::Iterator::enumerate")
    def it_enumerate(ev, fr, prog, fty, args, cx):
        return mk("enumerate", itv(ev, args[0]))

    @reg("std::iter::Iterator::rev")
    def it_rev(ev, fr, prog, fty, args, cx):
        return mk("rev", itv(ev, args[0]))

    @reg("std::iter::Iterator::chain")
    def it_chain(ev, fr, prog, fty, args, cx):
        return mk("chain", itv(ev, args[0]), itv(ev, args[1]))

    @reg("std::iter::Iterator::collect", "std::iter::FromIterator::from_iter")
    def it_collect(ev, fr, prog, fty, args, cx):
        return M.collect(ev, prog, itv(ev, args[0]), cx["ret_ty"], fr.genv if fr else {})

    @reg("std::iter::Iterator::sum")
    def it_sum(ev, fr, prog, fty, args, cx):
        return M.it_sum(ev, itv(ev, args[0]))

    @reg("std::iter::Iterator::count")
    def it_count(ev, fr, prog, fty, args, cx):
        return mk("count", itv(ev, args[0]))

    @reg("std::iter::Iterator::any")
    def it_any(ev, fr, prog, fty, args, cx):
        return M.it_any(ev, itv(ev, args[0]), args[1])

    @reg("std::iter::Iterator::all")
    def it_all(ev, fr, prog, fty, args, cx):
        return M.it_all(ev, itv(ev, args[0]), args[1])

    @reg("std::iter::Iterator::find")
    def it_find(ev, fr, prog, fty, args, cx):
        return M.it_find(ev, itv(ev, args[0]), args[1])

    @reg("std::iter::Iterator::position")
    def it_position(ev, fr, prog, fty, args, cx):
        return M.it_position(ev, itv(ev, args[0]), args[1])

    @reg("std::iter::Iterator::max")
    def it_max(ev, fr, prog, fty, args, cx):
        it = itv(ev, args[0])
        return make_opt(mk("nonempty", it), mk("max_of", it))

    @reg("std::iter::Iterator::min")
    def it_min(ev, fr, prog, fty, args, cx):
        it = itv(ev, args[0])
        return make_opt(mk("nonempty", it), mk("min_of", it))

    @reg("std::iter::Iterator::next")
    def it_next(ev, fr, prog, fty, args, cx):
        return M.it_next(ev, args[0])

    @reg("std::iter::Iterator::last")
    def it_last(ev, fr, prog, fty, args, cx):
        it = itv(ev, args[0])
        return make_opt(mk("nonempty", it), mk("last_val", it))

    @reg("std::iter::Iterator::fold")
    def it_fold(ev, fr, prog, fty, args, cx):
        it = itv(ev, args[0])
        init, f = args[1], args[2]
        if it.op == "eiter":
            items = M.eiter_items(it)
            if getattr(ev, "order_check", False) and not ev.discover and M.hashy(it) and len(items) >= 2:
                # a fold over a hash-ordered iterator: also computed in the opposite order (compared by C10/H2b)
                ev.discover += 1
                try:
                    racc = init
                    for g, x in reversed(items):
                        racc = tm.ite(g, M.apply_gated(ev, g, f, [racc, x]), racc)
                finally:
                    ev.discover -= 1
                acc = init
                for g, x in items:
                    acc = tm.ite(g, M.apply_gated(ev, g, f, [acc, x]), acc)
                ev.__dict__.setdefault("order_loops", []).append(
                    {"loc": cx.get("loc") if isinstance(cx, dict) else None, "stack": tuple(ev.call_stack), "n": len(items),
                     "names": {0: "fold"}, "cells": [(0, acc, racc)] if acc is not racc else []})
                return acc
            acc = init
            for g, x in items:
                acc = tm.ite(g, M.apply_gated(ev, g, f, [acc, x]), acc)
            return acc
        # a fold over a symbolic iterator is the loop `for x in it { acc = f(acc, x) }`: evaluated and classified like one
        # (a sum written as fold(0, |a, x| a + g(x)) gets the closed form of the sum; anything unrecognised keeps the
        # term fold(it, init, λ))
        if it.op in ("iter", "map", "filter", "filter_map", "zip", "enumerate", "chars", "lines") and not ev.discover \
                and not getattr(ev, "_in_fold_model", False):
            ev._in_fold_model = True
            try:
                cell = ev.new_cell(init, "fold_acc")

                def body(elem, elem_place=None):
                    cur = ev.read(Place(cell))
                    ev.write(Place(cell), ev.apply(f, [cur, elem]))
                    return None
                M.run_loop(ev, it, body, cx.get("loc") if isinstance(cx, dict) else None)
                out = ev.read(Place(cell))
            finally:
                ev._in_fold_model = False
            return out
        l, _ = ev.reify(f, 2)
        return mk("fold", it, init, l)

    @reg("std::iter::Iterator::try_fold")
    def it_try_fold(ev, fr, prog, fty, args, cx):
        """try_fold over an unrolled iterator with a Result-valued step: Ok(final accumulator), or the first Err."""
        it = itv(ev, args[0])
        init, f = args[1], args[2]
        rt = prog.types[cx["ret_ty"]] if isinstance(cx, dict) and "ret_ty" in cx else None
        if it.op != "eiter" or rt is None or not str(rt.get("path", "")).endswith("result::Result"):
            return M.opaque_call(ev, fty, "std::iter::Iterator::try_fold", args, cx)
        items = M.eiter_items(it)

        def run(seq, assume_ok=False):
            acc = init
            errc = tm.FALSE
            errv = tm.GARBAGE
            for g, x in seq:
                r = M.apply_gated(ev, tm.and_(g, tm.not_(errc)), f, [acc, x])
                if r is BOTTOM:
                    continue
                ok = tm.TRUE if assume_ok else res_is_ok(r)
                live = tm.and_(g, tm.not_(errc))
                errv = tm.ite(tm.and_(live, tm.not_(ok)), res_err(r), errv)
                acc = tm.ite(tm.and_(live, ok), res_ok(r), acc)
                errc = tm.or_(errc, tm.and_(live, tm.not_(ok)))
            return acc, errc, errv
        if getattr(ev, "order_check", False) and not ev.discover and M.hashy(it) and len(items) >= 2:
            # the accumulator where no step fails, forwards and backwards (which error is reported first is admitted)
            ev.discover += 1
            try:
                racc, _rc, _rv = run(list(reversed(items)), True)
                facc, _fc, _fv = run(items, True)
            finally:
                ev.discover -= 1
            acc, errc, errv = run(items)
            ev.__dict__.setdefault("order_loops", []).append(
                {"loc": cx.get("loc") if isinstance(cx, dict) else None, "stack": tuple(ev.call_stack), "n": len(items),
                 "names": {0: "try_fold"}, "cells": [(0, facc, racc)] if facc is not racc else []})
        else:
            acc, errc, errv = run(items)
            ev.discover += 1
            try:
                facc, _fc, _fv = run(items, True)
            finally:
                ev.discover -= 1
        # the Ok payload is only observable when no step failed, where it equals the accumulation with every step Ok
        return tm.ite(errc, tm.err(errv), tm.ok(facc))

    @reg("std::iter::Iterator::for_each")
    def it_for_each(ev, fr, prog, fty, args, cx):
        it = itv(ev, args[0])
        f = args[1]

        def body(elem, elem_place=None):
            n0 = len(ev.pc)
            ev.apply(f, [elem])
            del ev.pc[n0:]
            if not ev.store.live:
                ev.store.live = True
            return None
        return M.run_loop(ev, it, body, cx.get("loc"))

    # ---------------------------------------------------------------- strings
    def s1(op):
        def m(ev, fr, prog, fty, args, cx):
            return mk(op, *[deref_arg(ev, a) for a in args])
        return m

    def trim(ev, fr, prog, fty, args, cx):
        v = deref_arg(ev, args[0])
        if v.op == "trim":
            return v
        return mk("trim", v)
    M.table["core::str::<impl str>::trim"] = trim
    M.table["core::str::<impl str>::trim_start"] = s1("trim_start")
    M.table["core::str::<impl str>::trim_end"] = s1("trim_end")
    M.table["core::str::<impl str>::lines"] = s1("lines")
    M.table["core::str::<impl str>::split"] = s1("split")
    M.table["core::str::<impl str>::split_whitespace"] = s1("split_whitespace")
    M.table["core::str::<impl str>::chars"] = s1("chars")
    M.table["core::str::<impl str>::to_uppercase"] = s1("to_uppercase")
    M.table["core::str::<impl str>::to_lowercase"] = s1("to_lowercase")
    M.table["std::str::<impl str>::to_uppercase"] = s1("to_uppercase")
    M.table["std::str::<impl str>::to_lowercase"] = s1("to_lowercase")
    M.table["std::str::<impl str>::replace"] = s1("replace")
    M.table["core::str::<impl str>::starts_with"] = s1("starts_with")
    M.table["core::str::<impl str>::ends_with"] = s1("ends_with")
    M.table["core::str::<impl str>::contains"] = s1("str_contains")

    @reg("std::char::methods::<impl char>::len_utf8", "core::char::methods::<impl char>::len_utf8")
    def char_len_utf8(ev, fr, prog, fty, args, cx):
        c = deref_arg(ev, args[0])
        if c.op in ("char", "str") and isinstance(c.a[0], str):
            return tm.num(len(c.a[0].encode("utf-8")))
        return mk("len_utf8", c)

    @reg("core::str::<impl str>::split_once")
    def split_once(ev, fr, prog, fty, args, cx):
        """s.split_once(d) = Some((text before the first d, text after it)) when d occurs: spelled with the same
        splitn(2, ..) terms the two-step idiom produces."""
        st = deref_arg(ev, args[0])
        d = deref_arg(ev, args[1])
        parts = mk("collect", mk("splitn", tm.num(2), st, d))
        return make_opt(mk("str_contains", st, d), tm.tup(mk("index", parts, tm.ZERO), mk("index", parts, tm.num(1))))

    @reg("core::str::<impl str>::splitn")
    def splitn(ev, fr, prog, fty, args, cx):
        return mk("splitn", deref_arg(ev, args[1]), deref_arg(ev, args[0]), deref_arg(ev, args[2]))

    @reg("core::str::<impl str>::trim_matches", "core::str::<impl str>::trim_start_matches",
         "core::str::<impl str>::trim_end_matches")
    def trim_matches(ev, fr, prog, fty, args, cx):
        p = args[1]
        if p.op == "closure":
            p, _ = ev.reify(p, 1)
        return mk(fty["name"], deref_arg(ev, args[0]), p)

    @reg("core::str::<impl str>::strip_prefix")
    def strip_prefix(ev, fr, prog, fty, args, cx):
        s = deref_arg(ev, args[0])
        p = deref_arg(ev, args[1])
        return make_opt(mk("starts_with", s, p), mk("strip_prefix_val", s, p))

    @reg("core::str::<impl str>::strip_suffix")
    def strip_suffix(ev, fr, prog, fty, args, cx):
        s = deref_arg(ev, args[0])
        p = deref_arg(ev, args[1])
        return make_opt(mk("ends_with", s, p), mk("strip_suffix_val", s, p))

    @reg("std::string::String::new", "std::string::String::with_capacity")
    def string_new(ev, fr, prog, fty, args, cx):
        return tm.string("")

    @reg("std::string::String::push_str", "std::string::String::push")
    def string_push(ev, fr, prog, fty, args, cx):
        # text appended to a String under construction: the same term a formatter buffer gets from write_str
        if is_ref(args[0]):
            pl = place_of_ref(args[0])
            ev.write(pl, mk("fmt_append", ev.read(pl), deref_arg(ev, args[1])))
            return tm.UNIT
        return NotImplemented

    @reg("core::str::<impl str>::parse", "std::str::FromStr::from_str")
    def parse(ev, fr, prog, fty, args, cx):
        s = deref_arg(ev, args[0])
        if fty["name"] == "parse":
            ftid = fty["args"][0]
        else:
            ftid = fty["args"][0]
        key = ev.type_key(prog, ftid, fr.genv if fr else {})
        r = ev.resolve_trait_method("std::str::FromStr", "from_str", key)
        if r is not None and ev.prog.body(r[0]) is not None and not key.startswith("param:"):
            body = ev.prog.body(r[0])
            if ev.opaque_defs and (r[0] in ev.opaque_defs or body["path"] in ev.opaque_defs):
                return mk("call", "summary:parse:" + key.split("::")[-1], s)
            return ev.call_body(ev.prog.owner_program(r[0]), body, [s], genv=r[1])
        okc = mk("parses", key, s)
        return tm.ite(okc, tm.ok(mk("parsed", key, s)), tm.err(mk("parse_error", key, s)))

    # ---------------------------------------------------------------- formatting
    @reg("core::fmt::rt::Argument::<'_>::new_display")
    def arg_display(ev, fr, prog, fty, args, cx):
        return fmtarg(ev, fr, prog, "Display", args, cx)

    @reg("core::fmt::rt::Argument::<'_>::new_debug")
    def arg_debug(ev, fr, prog, fty, args, cx):
        return fmtarg(ev, fr, prog, "Debug", args, cx)

    @reg("core::fmt::rt::Argument::<'_>::from_usize")
    def arg_usize(ev, fr, prog, fty, args, cx):
        return fmtarg(ev, fr, prog, "usize", args, cx)

    def fmtarg(ev, fr, prog, kind, args, cx):
        tk = "?"
        if cx.get("arg_tys"):
            tk = ev.type_key(prog, cx["arg_tys"][0], fr.genv if fr else {})
        # remember which source expression fed the hole (for linking with the AST template)
        src = None
        if cx.get("arg_ids") and fr is not None and hasattr(fr, "exprs"):
            src = _arg_source(fr, cx["arg_ids"][0])
        return mk("fmtarg", kind, tk, deref_arg(ev, args[0]), src)

    @reg("std::fmt::Arguments::<'a>::new", "std::fmt::Arguments::<'a>::from_str",
         "std::fmt::Arguments::<'a>::new_const", "std::fmt::Arguments::<'a>::new_v1")
    def fmt_arguments(ev, fr, prog, fty, args, cx):
        e = cx.get("expr") or {}
        key = e.get("cs") or e.get("loc")
        vals = []
        if len(args) > 1:
            arr = deref_arg(ev, args[1])
            if arr.op == "seq":
                vals = list(arr.a)
            else:
                vals = [arr]
        return mk("fmtargs", key, e.get("loc"), *vals)

    @reg("std::fmt::format", "alloc::fmt::format")
    def fmt_format(ev, fr, prog, fty, args, cx):
        return mk("format", args[0])

    @reg("std::io::_print")
    def io_print(ev, fr, prog, fty, args, cx):
        ev.effect("print", ("stdout", args[0]), cx.get("loc"))
        return tm.UNIT

    @reg("std::io::_eprint")
    def io_eprint(ev, fr, prog, fty, args, cx):
        ev.effect("print", ("stderr", args[0]), cx.get("loc"))
        return tm.UNIT

    @reg("std::fmt::Formatter::<'a>::write_fmt", "std::fmt::Write::write_fmt")
    def write_fmt(ev, fr, prog, fty, args, cx):
        if is_ref(args[0]):
            pl = place_of_ref(args[0])
            ev.write(pl, mk("fmt_append", ev.read(pl), args[1]))
        else:
            ev.effect("write_fmt", args[1], cx.get("loc"))
        return tm.ok(tm.UNIT)

    @reg("std::fmt::Formatter::<'a>::write_str", "std::fmt::Write::write_str")
    def write_str(ev, fr, prog, fty, args, cx):
        if is_ref(args[0]):
            pl = place_of_ref(args[0])
            ev.write(pl, mk("fmt_append", ev.read(pl), deref_arg(ev, args[1])))
        return tm.ok(tm.UNIT)

    @reg("std::fmt::Formatter::<'a>::precision")
    def fmt_precision(ev, fr, prog, fty, args, cx):
        p = mk("fmt_precision")
        return make_opt(mk("has_precision"), p)

    @reg("std::fmt::Display::fmt", "std::fmt::Debug::fmt")
    def display_fmt(ev, fr, prog, fty, args, cx):
        # Display::fmt on a non-local type (forwarding impls)
        v = deref_arg(ev, args[0])
        k = ev.type_key(prog, cx["arg_tys"][0], fr.genv if fr else {}) if cx.get("arg_tys") else "?"
        if is_ref(args[1]):
            pl = place_of_ref(args[1])
            ev.write(pl, mk("fmt_append", ev.read(pl), mk("display", k, v)))
        return tm.ok(tm.UNIT)

    # ---------------------------------------------------------------- io / fs / serde / clap
    @reg("std::fs::read_to_string")
    def read_to_string(ev, fr, prog, fty, args, cx):
        p = deref_arg(ev, args[0])
        return tm.ite(mk("io_ok", "read", p), tm.ok(mk("file_content", p)), tm.err(mk("io_error", "read", p)))

    @reg("std::fs::File::create")
    def file_create(ev, fr, prog, fty, args, cx):
        p = deref_arg(ev, args[0])
        return tm.ite(mk("io_ok", "create", p), tm.ok(mk("file", p)), tm.err(mk("io_error", "create", p)))

    @reg("std::io::Write::write_all")
    def write_all(ev, fr, prog, fty, args, cx):
        f = deref_arg(ev, args[0])
        data = deref_arg(ev, args[1])
        ev.effect("write_file", (f, data), cx.get("loc"))
        return tm.ite(mk("io_ok", "write", f), tm.ok(tm.UNIT), tm.err(mk("io_error", "write", f)))

    @reg("serde_json::to_string_pretty", "serde_json::to_string")
    def to_json(ev, fr, prog, fty, args, cx):
        v = deref_arg(ev, args[0])
        return tm.ite(mk("json_ok", v), tm.ok(mk("json", v)), tm.err(mk("json_error", v)))

    @reg("clap::ArgMatches::<'a>::is_present")
    def cli_is_present(ev, fr, prog, fty, args, cx):
        return mk("cli_present", deref_arg(ev, args[1]))

    @reg("clap::ArgMatches::<'a>::value_of")
    def cli_value_of(ev, fr, prog, fty, args, cx):
        k = deref_arg(ev, args[1])
        return make_opt(mk("cli_present", k), mk("cli_value", k))

    @reg("clap::ArgMatches::<'a>::value_of_os")
    def cli_value_of_os(ev, fr, prog, fty, args, cx):
        k = deref_arg(ev, args[1])
        return make_opt(mk("cli_present", k), mk("cli_value_os", k))

    @reg("clap::ArgMatches::<'a>::values_of")
    def cli_values_of(ev, fr, prog, fty, args, cx):
        k = deref_arg(ev, args[1])
        return make_opt(mk("cli_present", k), mk("cli_values", k))

    @reg("clap::ArgMatches::<'a>::occurrences_of")
    def cli_occ(ev, fr, prog, fty, args, cx):
        return mk("cli_occurrences", deref_arg(ev, args[1]))


def _static_key(ev, path):
    for p in (ev.prog, ev.prog.other):
        if p is None:
            continue
        for b in p.bodies.values():
            if b["defkind"].startswith("Static") and (b["path"] == path or path.endswith(b["path"])
                                                       or b["path"].endswith(path.split("::")[-1])):
                return b["def"]
    return None


def _arg_source(fr, eid):
    """Describe the source expression feeding a format hole: ('field', N) for the
    `match (&a,&b) { args => … args.N }` lowering, else its source location."""
    ex = fr.exprs
    e = ex[eid]
    seen = 0
    while e["k"] in ("scope", "use", "borrow", "deref") and seen < 20:
        eid = e.get("v", e.get("src", e.get("arg")))
        e = ex[eid]
        seen += 1
    if e["k"] == "field":
        inner = ex[e["lhs"]]
        n = 0
        while inner["k"] in ("scope", "use", "borrow", "deref") and n < 20:
            inner = ex[inner.get("v", inner.get("src", inner.get("arg")))]
            n += 1
        if inner["k"] == "var" and inner.get("name") == "args":
            return ("argsfield", e["f"])
    return ("loc", e.get("loc"))
