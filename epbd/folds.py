"""Loop-carried state: shape-preserving symbolic state and closed forms for recurrences
(DESIGN §2.2 'fold' classification: invariant / add-recurrence / keyed accumulation / append).
"""
from . import term as tm
from .term import T, mk

UNDEF = tm.GARBAGE


STATE_LEAVES = {}      # state symbol -> Leaf (init / next are used for inductive length classes)


class Leaf(object):
    __slots__ = ("sym", "init", "kind", "sibling", "next")

    def __init__(self, sym, init, kind, sibling=None):
        self.sym = sym
        self.init = init
        self.kind = kind          # 'val' | 'pres'
        self.sibling = sibling    # for an emap value leaf: the Leaf of its presence flag
        self.next = None
        STATE_LEAVES[sym] = self


def structured_state(init, leaves, depth=0):
    """A term of the same shape as `init` whose leaves are fresh symbols."""
    if depth < 6:
        if init.op == "emap":
            args = [init.a[0]]
            n = (len(init.a) - 1) // 2
            for i in range(n):
                p, v = init.a[1 + 2 * i], init.a[2 + 2 * i]
                sp = tm.fresh("sp")
                pl = Leaf(sp, p, "pres")
                leaves.append(pl)
                if v.op in ("emap", "adt", "tuple") and v is not UNDEF:
                    sv = structured_state(v, leaves, depth + 1)
                else:
                    sv = tm.fresh("sv")
                    leaves.append(Leaf(sv, v, "val", pl))
                args.extend([sp, sv])
            return mk("emap", *args)
        if init.op == "eset":
            args = [init.a[0]]
            for p in init.a[1:]:
                sp = tm.fresh("sp")
                leaves.append(Leaf(sp, p, "pres"))
                args.append(sp)
            return mk("eset", *args)
        if init.op == "adt" and len(init.a) > 2:
            return mk("adt", init.a[0], init.a[1],
                      *[structured_state(x, leaves, depth + 1) for x in init.a[2:]])
        if init.op == "tuple" and len(init.a) > 0:
            return mk("tuple", *[structured_state(x, leaves, depth + 1) for x in init.a])
    s = tm.fresh("st")
    leaves.append(Leaf(s, init, "val"))
    return s


def decompose(n, s, force=False):
    """n as a case chain over s; every update is simplified under its own gate."""
    out = []
    for g, u in _decompose(n, s, force):
        sub = {}
        for c in (g.a if g.op == "and" else (g,)):
            if c.op == "not":
                sub[c.a[0]] = tm.FALSE
            elif c is not tm.TRUE:
                sub[c] = tm.TRUE
                if c.op == "isvar":
                    d = tm.ADT_NAMES.get(c.a[1])
                    if d:
                        for w in d:
                            if w != c.a[2]:
                                sub[tm.isvar(c.a[0], c.a[1], w)] = tm.FALSE
        u2 = tm.subst(u, sub) if sub else u
        # the gate itself: its literal conjuncts decide parts of its compound conjuncts (a case whose gate
        # becomes false is dropped; `contains(k)` collapses to the presence of the entry the literals select)
        g2 = g
        asub = dict((k, v) for k, v in sub.items() if k.op not in ("and", "or", "ite", "not"))
        if asub and g.op == "and":
            for _round in range(2):
                parts = []
                for c in (g2.a if g2.op == "and" else (g2,)):
                    if c.op in ("and", "or", "ite") or (c.op == "not" and c.a[0].op in ("and", "or", "ite")):
                        parts.append(tm.subst(c, asub))
                    else:
                        parts.append(c)
                g3 = tm.and_(*parts)
                if g3 is g2:
                    break
                g2 = g3
        if g2 is tm.FALSE:
            continue
        out.append((g2, u2))
    return out


def _decompose(n, s, force=False):
    """n as a case chain over s: list of (gate, update) where update is not s; paths where
    n is s are omitted."""
    if n is s:
        return []
    if not force and s not in tm.free_syms(n):
        return [(tm.TRUE, n)]
    if n.op == "ite":
        c, a, b = n.a
        out = []
        for g, u in _decompose(a, s, force):
            gg = tm.and_(c, g)
            if gg is not tm.FALSE:
                out.append((gg, u))
        nc = tm.not_(c)
        for g, u in _decompose(b, s, force):
            gg = tm.and_(nc, g)
            if gg is not tm.FALSE:
                out.append((gg, u))
        return out
    return [(tm.TRUE, n)]


def addends(t, sign=1):
    """Flatten a sum (scalar add/sub/neg or vector vop add/sub) into [(sign, term)]."""
    if t.op == "add":
        return addends(t.a[0], sign) + addends(t.a[1], sign)
    if t.op == "sub":
        return addends(t.a[0], sign) + addends(t.a[1], -sign)
    if t.op == "neg":
        return addends(t.a[0], -sign)
    if t.op == "vop" and t.a[0] == "add":
        return addends(t.a[1], sign) + addends(t.a[2], sign)
    if t.op == "vop" and t.a[0] == "sub":
        return addends(t.a[1], sign) + addends(t.a[2], -sign)
    return [(sign, t)]


def is_vector_sum(t):
    return t.op == "vop" and t.a[0] in ("add", "sub")


def increment(u, s, state_syms):
    """If u = s + d with d free of every state symbol, return (d, is_vector) else None."""
    parts = addends(u)
    hits = [i for i, (sg, x) in enumerate(parts) if x is s]
    if len(hits) != 1 or parts[hits[0]][0] != 1:
        return None
    rest = [p for i, p in enumerate(parts) if i != hits[0]]
    if not rest:
        return None
    vec = is_vector_sum(u)
    d = None
    for sg, x in rest:
        if tm.free_syms(x) & state_syms:
            return None
        if vec:
            term = x if sg == 1 else mk("vneg", x)
            d = term if d is None else tm.vop("add", d, term)
        else:
            term = x if sg == 1 else tm.neg(x)
            d = term if d is None else tm.add(d, term)
    return d, vec


def filtered(src, elem, gate):
    if gate is tm.TRUE:
        return src
    return mk("filter", src, tm.lam([elem], gate))


def sum_closed(src, elem, cases, vec):
    """Σ over the iteration of the case increments."""
    total = None
    for g, d in cases:
        it = filtered(src, elem, g)
        t = mk("vsumover" if vec else "sumover", it, tm.lam([elem], d))
        if total is None:
            total = t
        else:
            total = tm.vop("add", total, t) if vec else tm.add(total, t)
    return total


class Classifier(object):
    def __init__(self, uid, src, elem, leaves):
        self.uid = uid
        self.src = src
        self.elem = elem
        self.leaves = leaves
        self.by_sym = dict((l.sym, l) for l in leaves)
        self.state_syms = frozenset(l.sym for l in leaves)
        self.general = []       # leaves that stayed uninterpreted
        self.kinds = []         # (kind, description) per classified leaf that changed

    def free_of_state(self, t):
        return not (tm.free_syms(t) & self.state_syms)

    def rebuild(self, s, n):
        """Closed form of the final value for state shape s with next-state term n."""
        if s.op == "sym" and s in self.by_sym:
            return self.leaf(self.by_sym[s], n)
        if s.op == n.op and s.op in ("adt", "tuple", "emap", "eset") and len(s.a) == len(n.a):
            if s.op == "adt" and (s.a[0] != n.a[0] or s.a[1] != n.a[1]):
                return self.opaque(s, n)
            start = {"adt": 2, "tuple": 0, "emap": 1, "eset": 1}[s.op]
            args = list(s.a[:start])
            for x, y in zip(s.a[start:], n.a[start:]):
                args.append(self.rebuild(x, y))
            return mk(s.op, *args)
        if s.op == "adt" and n.op in ("upd", "ite"):
            # field-wise view of an updated record
            args = list(s.a[:2])
            for i, x in enumerate(s.a[2:]):
                args.append(self.rebuild(x, tm.proj(n, s.a[1], i, None)))
            return mk("adt", *args)
        return self.opaque(s, n)

    def opaque(self, s, n):
        self.general.append((s, n))
        return mk("foldgen", self.uid, len(self.general) - 1)

    def leaf(self, leaf, n):
        s = leaf.sym
        leaf.next = n
        if n is s:
            return leaf.init
        if s in tm.free_syms(n) and not decompose(n, s):
            return leaf.init            # every updating case has a contradictory gate: never changed
        if leaf.kind == "pres":
            return self.presence(leaf, n)
        if leaf.sibling is not None:
            return self.entry_value(leaf, n)
        return self.plain(leaf, n)

    def _not_first(self, c, s):
        """c says "this is not the first iteration": `0 < index` of an enumerated source, or "the text so far is not empty"
        (pieces are assumed non-empty only for the second form's purposes: an empty first piece would drop one separator;
        admitted for separators, not for content)."""
        if c.op == "lt" and c.a[0] is tm.ZERO and c.a[1].op == "tproj" and c.a[1].a[0] is self.elem and c.a[1].a[1] == 0 \
                and self.src.op == "enumerate":
            return True
        if c.op == "not" and c.a[0].op == "is_empty" and c.a[0].a[0] is s:
            return True
        if c.op == "lt" and c.a[0] is tm.ZERO and c.a[1].op == "len" and c.a[1].a[0] is s:
            return True
        return False

    def presence(self, leaf, n):
        s = leaf.sym
        when_true = tm.subst(n, {s: tm.TRUE})
        when_false = tm.subst(n, {s: tm.FALSE})
        if when_true is tm.TRUE and self.free_of_state(when_false):
            self.kinds.append(("becomes-present", when_false))
            return tm.or_(leaf.init, tm.any_(self.src, tm.lam([self.elem], when_false)))
        self.general.append((s, n))
        return mk("foldgen", self.uid, len(self.general) - 1)

    def by_fields(self, leaf, n):
        """An opaque record updated field-wise (upd chains): classify each updated field."""
        s = leaf.sym
        fields = {}
        for t in tm.subterms(n):
            if t.op == "upd" and (t.a[0] is s or t.a[0].op in ("upd", "ite")):
                fields[(t.a[1], t.a[2], t.a[3])] = True
        if not fields:
            return None
        out = leaf.init
        subs = {}
        fleaves = {}
        for (vidx, i, name) in fields:
            fs = tm.fresh("sf")
            fl = Leaf(fs, tm.proj(leaf.init, vidx, i, name), "val")
            self.leaves.append(fl)
            self.by_sym[fs] = fl
            fleaves[(vidx, i, name)] = fl
            subs[tm.proj(s, vidx, i, name)] = fs
        self.state_syms = frozenset(l.sym for l in self.leaves)
        for (vidx, i, name), fl in fleaves.items():
            nf = tm.subst(tm.proj(n, vidx, i, name), subs)
            if s in tm.free_syms(nf):
                return None          # the new field value reads other parts of the record
            out = tm.upd(out, vidx, i, name, self.leaf(fl, nf))
        # fields that are not updated must stay: n projected on any other field is s's field
        return out

    def plain(self, leaf, n):
        s = leaf.sym
        if leaf.init.op not in ("adt", "emap", "eset", "tuple") and any(
                t.op == "upd" for t in tm.subterms(n)) and leaf.kind == "val":
            r = self.by_fields(leaf, n)
            if r is not None:
                self.kinds.append(("record-fields", None))
                return r
        emp = mk("is_empty", s)
        if leaf.init.op == "seq" and len(leaf.init.a) == 0 and any(t is emp for t in tm.subterms(n)):
            r = self.accumulate(leaf, tm.subst(n, {emp: tm.FALSE}), tm.subst(n, {emp: tm.TRUE}))
            if r is not None:
                total, incs = r
                self.kinds.append(("empty-or-sum", incs))
                gate = tm.or_(*[g for g, _ in incs])
                return tm.ite(tm.any_(self.src, tm.lam([self.elem], gate)), total, leaf.init)
        if leaf.init is tm.NONE or (leaf.init.op == "adt" and leaf.init.a[0] == "Option"):
            r = self.option_sum(leaf, n)
            if r is not None:
                return r
        cases = decompose(n, s)
        incs = []
        vec = False
        ok = True
        for g, u in cases:
            if not self.free_of_state(g):
                ok = False
                break
            r = increment(u, s, self.state_syms)
            if r is None:
                ok = False
                break
            incs.append((g, r[0]))
            vec = vec or r[1]
        if ok and incs:
            self.kinds.append(("add-recurrence", incs))
            total = sum_closed(self.src, self.elem, incs, vec)
            if leaf.init is tm.ZERO:
                return total
            return tm.vop("add", leaf.init, total) if vec else tm.add(leaf.init, total)
        # append
        if cases and all(u.op == "push" and u.a[0] is s and self.free_of_state(u.a[1]) for g, u in cases) \
                and not all(self.free_of_state(g) for g, u in cases):
            # a gate that mentions other loop-carried values only vacuously (e.g. "the DEMANDA arm did not fail"
            # on the path of another arm): replace it by an equivalent state-free gate when that can be shown
            c2 = []
            for g, u in cases:
                g2 = self.state_free_gate(g)
                if g2 is None:
                    c2 = None
                    break
                c2.append((g2, u))
            if c2 is not None:
                cases = c2
        if cases and all(self.free_of_state(g) and u.op == "push" and u.a[0] is s
                         and self.free_of_state(u.a[1]) for g, u in cases):
            self.kinds.append(("append", cases))
            # one extend in iteration order: the element pushed is chosen by the case gates
            allg = tm.or_(*[g for g, _u in cases])
            el = tm.GARBAGE
            for g, u in reversed(cases):
                el = tm.ite(g, u.a[1], el)
            it = mk("map", filtered(self.src, self.elem, allg), tm.lam([self.elem], el))
            if leaf.init.op == "seq" and len(leaf.init.a) == 0 and allg is tm.TRUE:
                # pushing f(x) for every x into an empty vector is collect(map(src, f))
                from .models import _as_vop
                v = _as_vop(it)
                if v is not None:
                    return v
                return mk("collect", it)
            return mk("extend", leaf.init, it)
        # text accumulated piece by piece, with an optional separator between pieces:
        #   if i > 0 { s.push_str(sep) }  s.push_str(item)      (or `if !s.is_empty()`)   ->   join(map(src, item), sep)
        if leaf.init.op == "str" and leaf.init.a[0] == "" and n.op == "fmt_append" and self.free_of_state(n.a[1]):
            head, item = n.a
            sep = None
            if head is s:
                sep = tm.string("")
            elif head.op == "ite":
                c, a, b = head.a
                if a is s and b.op == "fmt_append":
                    c, a, b = tm.not_(c), b, a
                if b is s and a.op == "fmt_append" and a.a[0] is s and a.a[1].op in ("str", "char") and self._not_first(c, s):
                    sep = tm.string(a.a[1].a[0])
            if sep is not None:
                self.kinds.append(("join-accumulate", [(tm.TRUE, item)]))
                return mk("join", mk("collect", mk("map", self.src, tm.lam([self.elem], item))), sep)
        # a piece chosen per element and appended:  match x { A => s.push_str(a), B => s.push_str(b), o => s.push(o) }
        if leaf.init.op == "str" and leaf.init.a[0] == "" and n.op == "ite":
            def piece(t):
                if t.op == "ite" and self.free_of_state(t.a[0]):
                    a, b = piece(t.a[1]), piece(t.a[2])
                    return None if a is None or b is None else tm.ite(t.a[0], a, b)
                if t.op == "fmt_append" and t.a[0] is s and self.free_of_state(t.a[1]):
                    return t.a[1]
                return None
            item = piece(n)
            if item is not None:
                self.kinds.append(("join-accumulate", [(tm.TRUE, item)]))
                return mk("join", mk("collect", mk("map", self.src, tm.lam([self.elem], item))), tm.string(""))
        # de-duplicating append:  if !s.contains(e) { s.push(e) }  ->  the distinct values of e over the source,
        # in order of first occurrence
        if len(cases) == 1 and cases[0][1].op == "push" and cases[0][1].a[0] is s and self.free_of_state(cases[0][1].a[1]):
            g, u = cases[0]
            e = u.a[1]
            lits = list(g.a) if g.op == "and" else [g]
            member = [c for c in lits if c.op == "not" and c.a[0].op == "contains" and c.a[0].a[0] is s and c.a[0].a[1] is e]
            rest = [c for c in lits if c not in member]
            if len(member) == 1 and all(self.free_of_state(c) for c in rest):
                self.kinds.append(("dedup-append", [(tm.and_(*rest) if rest else tm.TRUE, e)]))
                it = mk("map", filtered(self.src, self.elem, tm.and_(*rest) if rest else tm.TRUE), tm.lam([self.elem], e))
                return mk("dedup", leaf.init, it)
        # a flag that is only ever raised:  s' = s || d(elem)   /   lowered:  s' = s && d(elem)
        if n.op in ("or", "and") and any(x is s for x in n.a):
            rest = [x for x in n.a if x is not s]
            if rest and all(self.free_of_state(x) for x in rest):
                d = (tm.or_ if n.op == "or" else tm.and_)(*rest)
                if n.op == "or":
                    self.kinds.append(("becomes-present", d))
                    return tm.or_(leaf.init, tm.any_(self.src, tm.lam([self.elem], d)))
                self.kinds.append(("stays-true", d))
                return tm.and_(leaf.init, tm.all_(self.src, tm.lam([self.elem], d)))
        # running maximum / minimum:  s' = ite(s < d, d, s)  (or the mirrored spellings)
        mm = self.minmax(leaf, n)
        if mm is not None:
            return mm
        # overwrite by a state-free value: last writer wins
        if cases and all(self.free_of_state(g) and self.free_of_state(u) for g, u in cases):
            self.kinds.append(("overwrite", cases))
            out = leaf.init
            for g, u in cases:
                out = mk("fold_last", filtered(self.src, self.elem, g), tm.lam([self.elem], u), out)
            return out
        # a single loop-carried value updated from itself and the element, on every iteration: the same
        # term Iterator::fold produces (downstream recognisers treat both spellings alike)
        if (tm.free_syms(n) & self.state_syms) <= frozenset([s]) and \
                not any(t.op in ("in_loop", "loop_pick") or
                        (t.op in ("retain", "map_inplace", "push", "extend", "setidx", "upd_first") and isinstance(t.a[0], tm.T)
                         and s in tm.free_syms(t.a[0]))
                        for t in tm.subterms(n)):
            self.kinds.append(("fold", None))
            return mk("fold", self.src, leaf.init, tm.lam([s, self.elem], n))
        self.general.append((s, n))
        return mk("foldgen", self.uid, len(self.general) - 1)

    def state_free_gate(self, g):
        if self.free_of_state(g):
            return g
        eq = getattr(self, "equiv", None)
        if eq is None:
            return None
        atoms = {}
        for t in tm.subterms(g):
            if t.op in ("and", "or", "not", "ite"):
                continue
            if tm.free_syms(t) & self.state_syms:
                # maximal state-dependent atoms only
                atoms[t.id] = t
        inner = set()
        for t in atoms.values():
            for x in tm.subterms(t):
                if x is not t and x.id in atoms:
                    inner.add(x.id)
        tops = [t for i, t in atoms.items() if i not in inner]
        if not tops or len(tops) > 12:
            return None
        g1 = tm.subst(g, dict((t, tm.TRUE) for t in tops))
        g0 = tm.subst(g, dict((t, tm.FALSE) for t in tops))
        if not (self.free_of_state(g1) and self.free_of_state(g0)):
            return None
        if g1 is g0 or eq(g1, g0):
            return g1
        return None

    def minmax(self, leaf, n):
        s = leaf.sym
        if n.op != "ite" or n.a[0].op not in ("lt", "le"):
            return None
        c, a, b = n.a
        x, y = c.a
        d = None
        kind = None
        if a is not s and b is s and self.free_of_state(a):
            d = a
            if x is s and y is d:
                kind = "max"          # s < d -> d
            elif x is d and y is s:
                kind = "min"          # d < s -> d
        elif a is s and b is not s and self.free_of_state(b):
            d = b
            if x is s and y is d:
                kind = "min"          # s < d -> s else d
            elif x is d and y is s:
                kind = "max"          # d < s -> s else d
        if kind is None or d is None:
            return None
        self.kinds.append((kind + "-recurrence", [(tm.TRUE, d)]))
        m = mk("map", self.src, tm.lam([self.elem], d))
        best = mk(kind + "_of", m)
        if leaf.init is tm.ZERO and kind == "max":
            return tm.ite(mk("nonempty", m), best, tm.ZERO)         # lengths / non-negative quantities start at 0
        return tm.ite(mk("nonempty", m), mk(kind, leaf.init, best), leaf.init)

    def option_sum(self, leaf, n):
        """Option<acc>: None -> Some(d), Some(a) -> Some(a + d): a commutative sum that starts at the
        first contributing element."""
        s = leaf.sym
        acc = tm.fresh("oacc")
        present = tm.subst(n, {s: tm.some(acc)})
        absent = tm.subst(n, {s: tm.NONE})
        if s in tm.free_syms(present) or s in tm.free_syms(absent):
            return None

        def payloads(t, keep):
            out = []
            for g, u in decompose(t, keep, force=True):
                if not (u.op == "adt" and u.a[0] == "Option" and u.a[1] == 1):
                    return None
                out.append((g, u.a[2]))
            return out
        if present.op == "adt" and present.a[0] == "Option" and present.a[1] == 1:
            pp = decompose(present.a[2], acc)          # ite pushed inside Some(..)
        else:
            pp = payloads(present, tm.some(acc))
        ap = payloads(absent, tm.NONE)
        if not pp or not ap:
            return None
        incs = []
        vec = False
        saved = self.state_syms
        self.state_syms = frozenset(saved | set([acc]))
        def only_len(c):
            """state occurs in c only as len(acc): a length-consistency guard (the other branch leaves
            the loop with an error)"""
            return acc not in tm.free_syms(tm.subst(c, {mk("len", acc): tm.fresh("n")}))
        guards = []
        try:
            for g, u in pp:
                cj = list(g.a) if g.op == "and" else [g]
                free = [c for c in cj if self.free_of_state(c)]
                dep = [c for c in cj if not self.free_of_state(c)]
                if any(not only_len(c) for c in dep):
                    return None
                guards.extend(dep)
                r = increment(u, acc, self.state_syms)
                if r is None:
                    return None
                incs.append((tm.and_(*free) if free else tm.TRUE, r[0]))
                vec = vec or r[1]
            for g, u in ap:
                if not (self.free_of_state(g) and self.free_of_state(u)):
                    return None
        finally:
            self.state_syms = saved

        def cset(g):
            return frozenset(c.id for c in (g.a if g.op == "and" else (g,)))
        if len(incs) != len(ap):
            return None
        for (g1, d1), (g2, d2) in zip(incs, ap):
            if d1 is not d2:
                return None
            # the accumulating case may carry extra state-free conjuncts implied by its guards only
            if not cset(g2) <= cset(g1) and not cset(g1) <= cset(g2):
                return None
        incs = [(g2, d2) for (g2, d2) in ap]
        self.kinds.append(("option-sum", incs))
        total = sum_closed(self.src, self.elem, incs, vec)
        gate = tm.or_(*[g for g, _ in incs])
        if leaf.init is tm.NONE:
            return tm.ite(tm.any_(self.src, tm.lam([self.elem], gate)), tm.some(total), tm.NONE)
        if leaf.init.op == "adt" and leaf.init.a[1] == 1:
            return tm.some(tm.vop("add", leaf.init.a[2], total) if vec else tm.add(leaf.init.a[2], total))
        return None

    def accumulate(self, leaf, present, absent):
        """present/absent: next-state terms when the accumulator already holds a value / is
        still empty.  Returns (Σ closed form, cases) when both describe the same increments."""
        s = leaf.sym
        pc = decompose(present, s)
        ac = decompose(absent, s)
        incs = []
        vec = False
        if not pc and not ac:
            return None
        for g, u in pc:
            if not self.free_of_state(g):
                return None
            r = increment(u, s, self.state_syms)
            if r is None:
                return None
            incs.append((g, r[0]))
            vec = vec or r[1]
        firsts = []
        for g, u in ac:
            if not (self.free_of_state(g) and self.free_of_state(u)):
                return None
            firsts.append((g, u))
        if not incs or [(g.id, d.id) for g, d in incs] != [(g.id, d.id) for g, d in firsts]:
            return None
        return sum_closed(self.src, self.elem, incs, vec), incs

    def entry_value(self, leaf, n):
        """Value of an enum-keyed map entry: first insertion then accumulation."""
        s = leaf.sym
        sp = leaf.sibling.sym
        present = tm.subst(n, {sp: tm.TRUE})
        absent = tm.subst(n, {sp: tm.FALSE})
        pc = decompose(present, s)
        ac = decompose(absent, s)
        incs = []
        vec = False
        ok = bool(pc) or bool(ac)
        for g, u in pc:
            if not self.free_of_state(g):
                ok = False
                break
            r = increment(u, s, self.state_syms)
            if r is None:
                ok = False
                break
            incs.append((g, r[0]))
            vec = vec or r[1]
        if ok:
            firsts = []
            for g, u in ac:
                if not (self.free_of_state(g) and self.free_of_state(u)):
                    ok = False
                    break
                firsts.append((g, u))
        if ok and [(g.id, d.id) for g, d in incs] == [(g.id, d.id) for g, d in firsts]:
            self.kinds.append(("keyed-accumulation", incs))
            vec = vec or any(d.op in ("vop", "vsumover", "proj") and False for _, d in incs)
            total = sum_closed(self.src, self.elem, incs, vec)
            ip = leaf.sibling.init
            if ip is tm.FALSE:
                return total
            acc = tm.vop("add", leaf.init, total) if vec else tm.add(leaf.init, total)
            return tm.ite(ip, acc, total)
        if ok and not incs and firsts:
            # inserted once, never modified when present: first/last writer
            self.kinds.append(("keyed-insert", firsts))
            out = leaf.init
            for g, u in firsts:
                out = mk("fold_last", filtered(self.src, self.elem, g), tm.lam([self.elem], u), out)
            return out
        return self.plain(leaf, n)
