"""Build and load the rustc fact files for /repo's *current working tree*.

The front end is /verif/engine/epbdlint (a rustc_private driver) run as
RUSTC_WORKSPACE_WRAPPER under `cargo +nightly check`.  Facts are rebuilt whenever the content
of the repository's build inputs changes (content hash of Cargo.* and src/**); a run for an
unchanged hash reuses the fact files of that exact hash (same input => same facts), so the
19 checks of one harness pass pay for one front-end run.
"""
import hashlib
import json
import os
import shutil
import subprocess
import sys
import time

VERIF = os.path.dirname(os.path.dirname(os.path.abspath(__file__)))
REPO = os.environ.get("EPBD_REPO", "/repo")
DRIVER = os.path.join(VERIF, "engine", "epbdlint", "target", "release", "epbdlint")
CACHE = os.path.join(VERIF, ".cache")


def _sysroot():
    return subprocess.check_output(["rustc", "+nightly", "--print", "sysroot"], text=True).strip()


def ensure_driver():
    src_dir = os.path.join(VERIF, "engine", "epbdlint")
    newest = 0.0
    for root, _d, files in os.walk(os.path.join(src_dir, "src")):
        for f in files:
            newest = max(newest, os.path.getmtime(os.path.join(root, f)))
    if os.path.exists(DRIVER) and os.path.getmtime(DRIVER) >= newest:
        return
    env = dict(os.environ, CARGO_NET_OFFLINE="true")
    r = subprocess.run(
        ["cargo", "+nightly", "build", "--release", "--offline"],
        cwd=src_dir, env=env, stdout=subprocess.PIPE, stderr=subprocess.STDOUT, text=True)
    if r.returncode != 0 or not os.path.exists(DRIVER):
        sys.stdout.write(r.stdout)
        raise SystemExit("CHECKER-ERROR: cannot build the epbdlint driver")


def repo_inputs(repo=None):
    repo = repo or REPO
    files = []
    for name in ("Cargo.toml", "Cargo.lock", "build.rs"):
        p = os.path.join(repo, name)
        if os.path.exists(p):
            files.append(p)
    for root, dirs, fs in os.walk(os.path.join(repo, "src")):
        dirs.sort()
        for f in sorted(fs):
            files.append(os.path.join(root, f))
    return files


def tree_hash(repo=None, extra=""):
    h = hashlib.sha256()
    repo = repo or REPO
    for p in repo_inputs(repo):
        h.update(os.path.relpath(p, repo).encode())
        h.update(b"\0")
        with open(p, "rb") as fh:
            h.update(fh.read())
        h.update(b"\0")
    with open(DRIVER, "rb") as fh:
        h.update(hashlib.sha256(fh.read()).digest())
    h.update(extra.encode())
    return h.hexdigest()[:24]


def _cached(out):
    return (os.path.exists(os.path.join(out, "facts-lib.json")) and os.path.exists(os.path.join(out, "facts-bin.json"))
            and os.path.exists(os.path.join(out, "ok")))


def build_facts(profile="dev", repo=None, quiet=True):
    """Returns (dir with facts-lib.json/facts-bin.json, info dict).

    Concurrent checks (the harness may start several at once on a tree whose facts are not cached yet) are
    serialised by an exclusive lock per target directory: the first one runs the front end, the others wait and
    then find the facts of that content hash.  Facts are written to a private directory and renamed into place."""
    import fcntl
    repo = repo or REPO
    ensure_driver()
    t0 = time.time()
    key = tree_hash(repo, profile)
    out = os.path.join(CACHE, "facts", key)
    if _cached(out):
        try:
            os.utime(out, None)       # least-recently-used order for the cache clean-up
        except OSError:
            pass
        return out, {"cached": True, "key": key, "wall_s": time.time() - t0, "profile": profile}
    target = os.path.join(CACHE, "target-" + profile + os.environ.get("EPBD_TARGET_SUFFIX", ""))
    os.makedirs(target, exist_ok=True)
    os.makedirs(os.path.join(CACHE, "facts"), exist_ok=True)
    lock = open(target + ".lock", "w")
    fcntl.flock(lock, fcntl.LOCK_EX)
    try:
        if _cached(out):
            return out, {"cached": True, "key": key, "wall_s": time.time() - t0, "profile": profile, "waited": True}
        return _build_locked(profile, repo, key, out, target, t0)
    finally:
        fcntl.flock(lock, fcntl.LOCK_UN)
        lock.close()


def _build_locked(profile, repo, key, out, target, t0):
    tmp = "%s.tmp.%d" % (out, os.getpid())
    shutil.rmtree(tmp, ignore_errors=True)
    os.makedirs(tmp)
    lib = os.path.join(tmp, "facts-lib.json")
    binf = os.path.join(tmp, "facts-bin.json")
    # cargo replays a cached unit without calling the wrapper: forget the workspace member
    for sub in ("debug", "release"):
        fp = os.path.join(target, sub, ".fingerprint")
        if os.path.isdir(fp):
            for d in os.listdir(fp):
                if d.startswith("cteepbd-"):
                    shutil.rmtree(os.path.join(fp, d), ignore_errors=True)
    env = dict(os.environ)
    env.update({
        "CARGO_NET_OFFLINE": "true",
        "LD_LIBRARY_PATH": _sysroot() + "/lib:" + env.get("LD_LIBRARY_PATH", ""),
        "RUSTFLAGS": "-Zmir-opt-level=0 -Awarnings",
        "RUSTC_WORKSPACE_WRAPPER": DRIVER,
        "EPBD_OUT": tmp,
        "CARGO_TARGET_DIR": target,
    })
    cmd = ["cargo", "+nightly", "check", "--offline", "--lib", "--bins"]
    if profile == "release":
        cmd.append("--release")
    r = subprocess.run(cmd, cwd=repo, env=env, stdout=subprocess.PIPE, stderr=subprocess.STDOUT,
                       text=True)
    info = {"cached": False, "key": key, "profile": profile, "cargo_rc": r.returncode}
    if r.returncode != 0:
        info["cargo_output"] = r.stdout[-4000:]
        shutil.rmtree(tmp, ignore_errors=True)
        raise BuildError("the repository does not compile (cargo check failed)", info)
    if not (os.path.exists(lib) and os.path.exists(binf)):
        info["cargo_output"] = r.stdout[-4000:]
        shutil.rmtree(tmp, ignore_errors=True)
        raise BuildError("front end produced no fact files (wrapper skipped?)", info)
    open(os.path.join(tmp, "ok"), "w").write("ok")
    shutil.rmtree(out, ignore_errors=True)
    os.rename(tmp, out)
    info["wall_s"] = time.time() - t0
    _gc_cache(keep=key)
    return out, info


def _gc_cache(keep, maxn=40):
    d = os.path.join(CACHE, "facts")
    try:
        ents = [(os.path.getmtime(os.path.join(d, e)), e) for e in os.listdir(d)]
    except OSError:
        return
    ents.sort(reverse=True)
    now = time.time()
    for m, e in ents[maxn:]:
        if e != keep and now - m > 1800:      # never remove what another running check may be reading
            shutil.rmtree(os.path.join(d, e), ignore_errors=True)


class BuildError(Exception):
    def __init__(self, msg, info):
        super().__init__(msg)
        self.info = info


def load(out_dir):
    with open(os.path.join(out_dir, "facts-lib.json")) as fh:
        lib = json.load(fh)
    with open(os.path.join(out_dir, "facts-bin.json")) as fh:
        binf = json.load(fh)
    return lib, binf
