"""Hash-consed term language of the value graph (DESIGN §2.2) with local simplification.

Terms are immutable, interned (structural equality == identity) DAG nodes.  Arguments are
Terms or plain hashable Python values (str, int, float, bool, None, tuples of those).
"""
import sys

sys.setrecursionlimit(100000)


class T(object):
    __slots__ = ("op", "a", "id", "_fv", "_maxbv", "_size")

    def __repr__(self):
        return show(self, 6)

    def __lt__(self, other):
        return self.id < other.id


_TABLE = {}
_NEXT = [0]


def _k(x):
    if isinstance(x, T):
        return x.id
    return ("p", x.__class__.__name__, x)


def mk(op, *a):
    key = (op,) + tuple(_k(x) for x in a)
    t = _TABLE.get(key)
    if t is None:
        t = T()
        t.op = op
        t.a = a
        t.id = _NEXT[0]
        _NEXT[0] += 1
        t._fv = None
        t._maxbv = None
        t._size = None
        _TABLE[key] = t
    return t


def is_t(x):
    return isinstance(x, T)


# ----------------------------------------------------------------------------------------
# leaves

GARBAGE = mk("garbage")
TRUE = mk("bool", True)
FALSE = mk("bool", False)
UNIT = mk("tuple")


def boolean(b):
    return TRUE if b else FALSE


def num(v):
    if isinstance(v, bool):
        raise TypeError
    if isinstance(v, float) and v == int(v) and abs(v) < 1e15:
        v = int(v)
    return mk("num", v)


ZERO = num(0)
ONE = num(1)


def string(s):
    return mk("str", s)


def char(c):
    return mk("char", c)


def sym(name, info=None):
    """A free symbolic value. `info` (hashable) distinguishes unrelated symbols of one name."""
    return mk("sym", name, info)


_FRESH = [0]


def fresh(prefix="v"):
    _FRESH[0] += 1
    return mk("sym", "%s#%d" % (prefix, _FRESH[0]), None)


def adt(path, vidx, *fields):
    return mk("adt", path, vidx, *fields)


def tup(*fields):
    return mk("tuple", *fields)


def some(x):
    return adt("Option", 1, x)


NONE = adt("Option", 0)


def ok(x):
    return adt("Result", 0, x)


def err(x):
    return adt("Result", 1, x)


def is_const(t):
    """A closed constant whose identity decides equality."""
    if t.op in ("num", "str", "char", "bool"):
        return True
    if t.op in ("adt", "tuple"):
        start = 2 if t.op == "adt" else 0
        return all(is_const(x) for x in t.a[start:])
    return False


# ----------------------------------------------------------------------------------------
# booleans

def not_(x):
    if x is TRUE:
        return FALSE
    if x is FALSE:
        return TRUE
    if x.op == "not":
        return x.a[0]
    if x.op == "lt":  # not(a<b) = b<=a   (NaN outside every claim, DESIGN A2)
        return mk("le", x.a[1], x.a[0])
    if x.op == "le":
        return mk("lt", x.a[1], x.a[0])
    return mk("not", x)


def _flat(op, xs):
    out = []
    for x in xs:
        if x.op == op:
            out.extend(x.a)
        else:
            out.append(x)
    return out


def and_(*xs):
    xs = _flat("and", xs)
    out = []
    seen = set()
    for x in xs:
        if x is TRUE:
            continue
        if x is FALSE:
            return FALSE
        if x.id in seen:
            continue
        if not_(x).id in seen:
            return FALSE
        seen.add(x.id)
        out.append(x)
    if not out:
        return TRUE
    if len(out) == 1:
        return out[0]
    # variant exclusivity: is_A(x) & is_B(x) = false ;  is_A(x) & (is_B(x) | y) = is_A(x) & y
    pos = {}
    for x in out:
        if x.op == "isvar":
            k = (x.a[0].id, x.a[1])
            if k in pos and pos[k] != x.a[2]:
                return FALSE
            pos[k] = x.a[2]
    if pos:
        res = []
        chg = False
        for x in out:
            if x.op == "or":
                kept = []
                for p in x.a:
                    if p.op == "isvar" and pos.get((p.a[0].id, p.a[1]), p.a[2]) != p.a[2]:
                        chg = True
                        continue
                    kept.append(p)
                if len(kept) != len(x.a):
                    res.append(or_(*kept))
                    continue
            res.append(x)
        if chg:
            return and_(*res)
    # absorption: x & (x | y) = x ;  x & (!x | y) = x & y
    changed = False
    res = []
    for x in out:
        if x.op == "or":
            parts = list(x.a)
            if any(p.id in seen for p in parts):
                changed = True
                continue
            kept = [p for p in parts if not_(p).id not in seen]
            if len(kept) != len(parts):
                changed = True
                res.append(or_(*kept))
                continue
        res.append(x)
    if changed:
        return and_(*res)
    # boolean choices on the same condition:  ite(c, a, b) & ite(c, a', b')  =  ite(c, a & a', b & b')
    # and a literal that decides the condition of a sibling choice selects its branch
    conds = {}
    for x in out:
        if x.op == "ite":
            conds.setdefault(x.a[0].id, []).append(x)
    merged = False
    if conds:
        res = []
        done = set()
        for x in out:
            if x.op == "ite":
                c = x.a[0]
                if c.id in seen:                      # c is itself a conjunct
                    res.append(x.a[1])
                    merged = True
                    continue
                if not_(c).id in seen:
                    res.append(x.a[2])
                    merged = True
                    continue
                grp = conds[c.id]
                if len(grp) > 1:
                    if c.id in done:
                        continue
                    done.add(c.id)
                    res.append(ite(c, and_(*[g.a[1] for g in grp]), and_(*[g.a[2] for g in grp])))
                    merged = True
                    continue
            res.append(x)
        if merged:
            return and_(*res)
    return mk("and", *out)


def or_(*xs):
    xs = _flat("or", xs)
    out = []
    seen = set()
    for x in xs:
        if x is FALSE:
            continue
        if x is TRUE:
            return TRUE
        if x.id in seen:
            continue
        if not_(x).id in seen:
            return TRUE
        seen.add(x.id)
        out.append(x)
    if not out:
        return FALSE
    if len(out) == 1:
        return out[0]
    # every variant of one subject tested: true
    byv = {}
    for x in out:
        if x.op == "isvar":
            byv.setdefault((x.a[0].id, x.a[1]), set()).add(x.a[2])
    for (sid, path), vs in byv.items():
        d = ADT_NAMES.get(path)
        if d and len(vs) == len(d):
            return TRUE
    # absorption: x | (x & y) = x ;  x | (!x & y) = x | y
    changed = False
    res = []
    for x in out:
        if x.op == "and":
            parts = list(x.a)
            if any(p.id in seen for p in parts):
                changed = True
                continue
            kept = [p for p in parts if not_(p).id not in seen]
            if len(kept) != len(parts):
                changed = True
                res.append(and_(*kept))
                continue
        res.append(x)
    if changed:
        return or_(*res)
    return mk("or", *out)


def _boolish(t, depth=0):
    if t is TRUE or t is FALSE or t.op in BOOL_OPS:
        return True
    return t.op == "ite" and depth < 6 and _boolish(t.a[1], depth + 1) and _boolish(t.a[2], depth + 1)


def ite(c, a, b):
    if c is TRUE:
        return a
    if c is FALSE:
        return b
    if a is b:
        return a
    if a is GARBAGE:
        return b
    if b is GARBAGE:
        return a
    if c.op == "not":
        return ite(c.a[0], b, a)
    if a is c:
        a = TRUE
    if b is c:
        b = FALSE
    if a is TRUE and b is FALSE:
        return c
    if a is FALSE and b is TRUE:
        return not_(c)
    if a is TRUE:
        return or_(c, b)
    if b is FALSE and _boolish(a):
        return and_(c, a)
    if a is FALSE:
        return and_(not_(c), b)
    if b is TRUE and _boolish(a):
        return or_(not_(c), a)
    # ite(c, ite(c, x, y), z) = ite(c, x, z)
    if a.op == "ite" and a.a[0] is c:
        return ite(c, a.a[1], b)
    if b.op == "ite" and b.a[0] is c:
        return ite(c, a, b.a[2])
    # finite maps over the same key type that differ only by the trailing "absent slots hold this default" marker
    # (HashMap::new() of a numeric value type has it, a collected map has not): merge entry by entry, drop the marker
    if a.op == "emap" and b.op == "emap" and a.a[0] == b.a[0] and len(a.a) != len(b.a) and abs(len(a.a) - len(b.a)) == 1:
        n = (min(len(a.a), len(b.a)) - 1) // 2
        args = [a.a[0]] + [ite(c, x, y) for x, y in zip(a.a[1:1 + 2 * n], b.a[1:1 + 2 * n])]
        return mk("emap", *args)
    # same constructor on both arms: push inside (keeps records explicit)
    if a.op == b.op and a.op in ("adt", "tuple", "emap", "eset") and len(a.a) == len(b.a):
        if a.op == "adt" and (a.a[0] != b.a[0] or a.a[1] != b.a[1]):
            return mk("ite", c, a, b)
        if a.op in ("emap", "eset") and a.a[0] != b.a[0]:
            return mk("ite", c, a, b)
        start = {"adt": 2, "tuple": 0, "emap": 1, "eset": 1}[a.op]
        args = list(a.a[:start]) + [ite(c, x, y) for x, y in zip(a.a[start:], b.a[start:])]
        return mk(a.op, *args)
    return mk("ite", c, a, b)


BOOL_OPS = frozenset(["bool", "and", "or", "not", "lt", "le", "eq", "isvar", "any", "all",
                      "contains", "is_empty", "starts_with", "str_contains"])


# ----------------------------------------------------------------------------------------
# comparisons

def eq(a, b):
    if a is b:
        return TRUE
    if is_const(a) and is_const(b):
        return FALSE
    # comparison of a truth value with a literal: `b == true` is b, `b == false` is !b (e.g. `match (p, q)` arms)
    if b is TRUE:
        return a
    if b is FALSE:
        return not_(a)
    if a is TRUE:
        return b
    if a is FALSE:
        return not_(b)
    # comparison with a fieldless enum constant is a variant test
    if b.op == "adt" and len(b.a) == 2 and a.op != "adt":
        return isvar(a, b.a[0], b.a[1])
    if a.op == "adt" and len(a.a) == 2 and b.op != "adt":
        return isvar(b, a.a[0], a.a[1])
    if a.op == "adt" and b.op == "adt" and a.a[0] == b.a[0]:
        if a.a[1] != b.a[1]:
            return FALSE
        return and_(*[eq(x, y) for x, y in zip(a.a[2:], b.a[2:])])
    if a.op == "tuple" and b.op == "tuple" and len(a.a) == len(b.a):
        return and_(*[eq(x, y) for x, y in zip(a.a, b.a)])
    if a.op == "ite" and is_const(b):
        return ite(a.a[0], eq(a.a[1], b), eq(a.a[2], b))
    if b.op == "ite" and is_const(a):
        return ite(b.a[0], eq(a, b.a[1]), eq(a, b.a[2]))
    if a.id > b.id:
        a, b = b, a
    return mk("eq", a, b)


def ne(a, b):
    return not_(eq(a, b))


def _numv(t):
    return t.a[0] if t.op == "num" else None


def lt(a, b):
    x, y = _numv(a), _numv(b)
    if x is not None and y is not None:
        return boolean(x < y)
    if a is b:
        return FALSE
    return mk("lt", a, b)


def le(a, b):
    x, y = _numv(a), _numv(b)
    if x is not None and y is not None:
        return boolean(x <= y)
    if a is b:
        return TRUE
    return mk("le", a, b)


def gt(a, b):
    return lt(b, a)


def ge(a, b):
    return le(b, a)


# ----------------------------------------------------------------------------------------
# arithmetic (kept syntactic; the algebra pack builds normal forms)

def add(a, b):
    x, y = _numv(a), _numv(b)
    if x is not None and y is not None:
        return num(x + y)
    if x == 0:
        return b
    if y == 0:
        return a
    return mk("add", a, b)


def sub(a, b):
    x, y = _numv(a), _numv(b)
    if x is not None and y is not None:
        return num(x - y)
    if y == 0:
        return a
    return mk("sub", a, b)


def mul(a, b):
    x, y = _numv(a), _numv(b)
    if x is not None and y is not None:
        return num(x * y)
    return mk("mul", a, b)


def div(a, b):
    return mk("div", a, b)


def neg(a):
    x = _numv(a)
    if x is not None:
        return num(-x)
    return mk("neg", a)


# ----------------------------------------------------------------------------------------
# projections

def proj(x, vidx, i, name=None):
    """Field i of variant vidx of x (vidx 0 for structs); tuples use tproj."""
    if x.op == "adt":
        if x.a[1] == vidx and 2 + i < len(x.a):
            return x.a[2 + i]
        return GARBAGE          # wrong variant: only reachable under a false guard
    if x is GARBAGE:
        return GARBAGE
    if x.op == "ite":
        return ite(x.a[0], proj(x.a[1], vidx, i, name), proj(x.a[2], vidx, i, name))
    if x.op == "loop_pick" and len(x.a) == 2 and isinstance(x.a[1], T) and x.a[1].op == "adt" and x.a[1].a[1] != vidx:
        return GARBAGE          # the value an iteration left the loop with is of another variant
    if x.op == "upd" and x.a[1] == vidx:
        if x.a[2] == i:
            return x.a[4]
        return proj(x.a[0], vidx, i, name)
    return mk("proj", x, vidx, i, name)


def upd(x, vidx, i, name, v):
    """x with field i of variant vidx replaced by v."""
    if x.op == "adt" and x.a[1] == vidx and 2 + i < len(x.a):
        args = list(x.a)
        args[2 + i] = v
        return mk("adt", *args)
    if x.op == "ite" and x.a[1].op == "adt" and x.a[2].op == "adt":
        return ite(x.a[0], upd(x.a[1], vidx, i, name, v), upd(x.a[2], vidx, i, name, v))
    if x.op == "upd" and x.a[1] == vidx and x.a[2] == i:
        return mk("upd", x.a[0], vidx, i, name, v)
    if v.op == "proj" and v.a[0] is x and v.a[1] == vidx and v.a[2] == i:
        return x
    return mk("upd", x, vidx, i, name, v)


def tproj(x, i):
    if x.op == "tuple" and i < len(x.a):
        return x.a[i]
    if x.op == "ite":
        return ite(x.a[0], tproj(x.a[1], i), tproj(x.a[2], i))
    if x.op == "tupd":
        if x.a[1] == i:
            return x.a[2]
        return tproj(x.a[0], i)
    return mk("tproj", x, i)


def tupd(x, i, v):
    if x.op == "tuple" and i < len(x.a):
        args = list(x.a)
        args[i] = v
        return mk("tuple", *args)
    return mk("tupd", x, i, v)


def isvar(x, path, vidx):
    if x.op == "adt":
        return boolean(x.a[1] == vidx)
    if x.op == "ite":
        return ite(x.a[0], isvar(x.a[1], path, vidx), isvar(x.a[2], path, vidx))
    if x.op == "upd":
        # a field update does not change the variant
        return boolean(x.a[1] == vidx) if False else isvar(x.a[0], path, vidx)
    if x.op == "loop_pick" and len(x.a) == 2 and isinstance(x.a[1], T) and x.a[1].op == "adt":
        return boolean(x.a[1].a[1] == vidx)      # the value an iteration left the loop with
    return mk("isvar", x, path, vidx)


# ----------------------------------------------------------------------------------------
# lambdas: locally nameless.  bv(level, idx): parameter idx of the binder at `level`, where a
# binder's level is 1 + the largest level bound inside its body (alpha-equivalent lambdas are
# therefore the same node).

def maxbv(t):
    if t._maxbv is not None:
        return t._maxbv
    if t.op == "bv":
        r = 0
    elif t.op == "lam":
        r = max(t.a[0], maxbv(t.a[2]))
    else:
        r = 0
        for x in t.a:
            if isinstance(x, T):
                m = maxbv(x)
                if m > r:
                    r = m
    t._maxbv = r
    return r


def free_syms(t):
    if t._fv is not None:
        return t._fv
    if t.op == "sym":
        r = frozenset([t])
    else:
        r = frozenset()
        for x in t.a:
            if isinstance(x, T):
                f = free_syms(x)
                if f:
                    r = r | f
    t._fv = r
    return r


def subst(t, mapping, cache=None):
    """Replace sub-terms (by identity) according to mapping {term: term}; rebuilds with the
    smart constructors so simplifications fire."""
    if cache is None:
        cache = {}
    return _subst(t, mapping, cache)


def _subst(t, m, cache):
    r = m.get(t)
    if r is not None:
        return r
    r = cache.get(t.id)
    if r is not None:
        return r
    changed = False
    args = []
    for x in t.a:
        if isinstance(x, T):
            y = _subst(x, m, cache)
            if y is not x:
                changed = True
            args.append(y)
        else:
            args.append(x)
    r = rebuild(t.op, args) if changed else t
    cache[t.id] = r
    return r


def rebuild(op, args):
    f = _REBUILD.get(op)
    if f is not None:
        return f(*args)
    return mk(op, *args)


def lam(params, body):
    """params: list of free symbols to abstract."""
    level = maxbv(body) + 1
    m = {}
    for i, p in enumerate(params):
        m[p] = mk("bv", level, i)
    return mk("lam", level, len(params), subst(body, m))


def apply_lam(l, args):
    assert l.op == "lam", l
    level, n, body = l.a
    m = {}
    for i in range(n):
        if i < len(args):
            m[mk("bv", level, i)] = args[i]
    return subst(body, m)


def open_lam(l, prefix="e"):
    """Instantiate a lambda's parameters with fresh symbols; returns (symbols, body)."""
    level, n, body = l.a
    syms = [fresh(prefix) for _ in range(n)]
    return syms, apply_lam(l, syms)


# ----------------------------------------------------------------------------------------

def vop(op, a, b):
    """Point-wise vector operation."""
    if op == "add":
        if a.op == "rep" and a.a[0] is ZERO:
            return b
        if b.op == "rep" and b.a[0] is ZERO:
            return a
    return mk("vop", op, a, b)


def compose(p, f):
    """p . f for unary lambdas."""
    x = fresh("c")
    return lam([x], apply_lam(p, [apply_lam(f, [x])]))


def lam_and(p, q):
    x = fresh("c")
    return lam([x], and_(apply_lam(p, [x]), apply_lam(q, [x])))


_ANY_MEMO = {}


def any_(it, l):
    k = (it.id, l.id)
    r = _ANY_MEMO.get(k)
    if r is None:
        r = _any(it, l)
        _ANY_MEMO[k] = r
    return r


def _any(it, l):
    """exists x in it. l(x), pushed through map / filter / collect."""
    n = 0
    while n < 20:
        n += 1
        if it.op == "map":
            l = compose(l, it.a[1])
            it = it.a[0]
            continue
        if it.op == "filter":
            l = lam_and(it.a[1], l)
            it = it.a[0]
            continue
        if it.op == "filter_map" and isinstance(it.a[1], T) and it.a[1].op == "lam":
            # exists y in filter_map(it, f). l(y)  =  exists x in it. f(x) is Some(y) and l(y)
            x = fresh("fm")
            o = apply_lam(it.a[1], [x])
            l = lam([x], and_(isvar(o, "Option", 1), apply_lam(l, [proj(o, 1, 0, None)])))
            it = it.a[0]
            continue
        if it.op == "iter" and it.a[0].op == "collect":
            it = it.a[0].a[0]
            continue
        if it.op == "iter" and it.a[0].op == "push":
            return or_(any_(mk("iter", it.a[0].a[0]), l), apply_lam(l, [it.a[0].a[1]]))
        if it.op == "iter" and it.a[0].op == "ite":
            c = it.a[0]
            return ite(c.a[0], any_(mk("iter", c.a[1]), l), any_(mk("iter", c.a[2]), l))
        if it.op == "iter" and it.a[0].op == "retain":
            l = lam_and(it.a[0].a[1], l)
            it = mk("iter", it.a[0].a[0])
            continue
        break
    if it.op == "iter" and it.a[0].op == "seq":
        return or_(*[apply_lam(l, [x]) for x in it.a[0].a])
    if it.op == "eiter":
        return or_(*[and_(it.a[2 * i], apply_lam(l, [it.a[2 * i + 1]])) for i in range(len(it.a) // 2)])
    if l.a[2] is FALSE:
        return FALSE
    return mk("any", it, l)


def all_(it, l):
    x = fresh("c")
    nl = lam([x], not_(apply_lam(l, [x])))
    return not_(any_(it, nl))


_REBUILD = {
    "not": not_, "and": and_, "or": or_, "ite": ite, "eq": eq, "lt": lt, "le": le,
    "add": add, "sub": sub, "mul": mul, "div": div, "neg": neg,
    "proj": proj, "upd": upd, "tproj": tproj, "tupd": tupd, "isvar": isvar,
    "any": any_, "vop": vop,
}


def register_rebuild(op, fn):
    _REBUILD[op] = fn


def size(t):
    seen = set()
    stack = [t]
    while stack:
        x = stack.pop()
        if x.id in seen:
            continue
        seen.add(x.id)
        for y in x.a:
            if isinstance(y, T):
                stack.append(y)
    return len(seen)


def subterms(t):
    seen = set()
    stack = [t]
    while stack:
        x = stack.pop()
        if x.id in seen:
            continue
        seen.add(x.id)
        yield x
        for y in x.a:
            if isinstance(y, T):
                stack.append(y)


ADT_NAMES = {}     # path -> {vidx: (variant name, [field names])}


def register_adts(adts):
    for a in adts:
        short = a["path"].split("::")[-1]
        d = {}
        for v in a["variants"]:
            d[v["idx"]] = (v["name"], [f["name"] for f in v["fields"]])
        ADT_NAMES[short] = d
    ADT_NAMES["Option"] = {0: ("None", []), 1: ("Some", ["0"])}
    ADT_NAMES["Result"] = {0: ("Ok", ["0"]), 1: ("Err", ["0"])}
    ADT_NAMES["ControlFlow"] = {0: ("Continue", ["0"]), 1: ("Break", ["0"])}


def variant_name(path, vidx):
    d = ADT_NAMES.get(path)
    if d and vidx in d:
        return d[vidx][0]
    return "#%s" % vidx


def field_names(path, vidx):
    d = ADT_NAMES.get(path)
    if d and vidx in d:
        return d[vidx][1]
    return None


def field_index(path, name, vidx=0):
    names = field_names(path, vidx)
    if names is None or name not in names:
        return None
    return names.index(name)


def getf(x, path, name, vidx=0):
    """Field `name` of struct value x of ADT `path` (looked up in the ADT table)."""
    i = field_index(path, name, vidx)
    if i is None:
        raise KeyError("%s.%s" % (path, name))
    return proj(x, vidx, i, name)


INFIX = {"add": "+", "sub": "-", "mul": "*", "div": "/", "lt": "<", "le": "<=", "eq": "==",
         "and": "&&", "or": "||"}


def show(t, depth=8, names=None):
    if not isinstance(t, T):
        return repr(t)
    if depth <= 0:
        return "…#%d" % t.id
    op = t.op
    d = depth - 1
    if op == "num":
        return repr(t.a[0])
    if op == "bool":
        return "true" if t.a[0] else "false"
    if op == "str":
        return repr(t.a[0])
    if op == "char":
        return "'%s'" % t.a[0]
    if op == "sym":
        return t.a[0]
    if op == "bv":
        return "$%d.%d" % (t.a[0], t.a[1])
    if op == "lam":
        return "(λ%d/%d. %s)" % (t.a[0], t.a[1], show(t.a[2], d))
    if op in INFIX and len(t.a) >= 2:
        return "(" + (" %s " % INFIX[op]).join(show(x, d) for x in t.a) + ")"
    if op == "adt":
        names = field_names(t.a[0], t.a[1])
        vn = variant_name(t.a[0], t.a[1])
        if names and len(names) == len(t.a) - 2:
            fs = ", ".join("%s: %s" % (n, show(x, d)) for n, x in zip(names, t.a[2:]))
        else:
            fs = ", ".join(show(x, d) for x in t.a[2:])
        head = t.a[0] if vn == t.a[0] else "%s::%s" % (t.a[0], vn)
        return "%s{%s}" % (head, fs) if fs else head
    if op == "isvar":
        return "is_%s(%s)" % (variant_name(t.a[1], t.a[2]), show(t.a[0], d))
    if op == "proj":
        return "%s.%s" % (show(t.a[0], d), t.a[3] if t.a[3] is not None else _fname(t.a[1], t.a[2]))
    if op == "tproj":
        return "%s.%d" % (show(t.a[0], d), t.a[1])
    if op == "ite":
        return "ite(%s, %s, %s)" % (show(t.a[0], d), show(t.a[1], d), show(t.a[2], d))
    return "%s(%s)" % (op, ", ".join(show(x, d) if isinstance(x, T) else repr(x) for x in t.a))


def _fname(vidx, i):
    return "%s" % i if vidx == 0 else "v%s.%s" % (vidx, i)
