"""Sign / order reasoning over normal forms (DESIGN §3.1, rules R1–R7).

nonneg(p) is proved by a small, fixed set of sound monotone rewrites applied to the polynomial:
  R1  min(a,b) <= a, <= b            (a negative-coefficient min may be replaced by an argument)
  R2  0 <= f <= 1, x >= 0 => f*x <= x (a bounded factor in a negative monomial replaced by 1)
  R5  sums / products / min of non-negatives are non-negative
  R6  a <= b => b - a >= 0            (this is how `le` is posed)
  R7  load matching f(x) = (x + 1/x - 1)/(x + 1/x) in [1/2, 1) for x > 0
  case split on the condition of an `ite` atom; Σ_t of a point-wise non-negative is non-negative.
Nothing else is attempted; what these cannot prove is reported as underivable.
"""
from fractions import Fraction

from . import term as tm
from .alg import Poly, padd, pmul, pscale, const, Algebra


def eval_ck(ck, facts):
    v = facts.get(ck)
    if v is not None:
        return v
    if isinstance(ck, tuple) and ck:
        h = ck[0]
        if h == "and":
            r = True
            for x in ck[1:]:
                v = eval_ck(x, facts)
                if v is False:
                    return False
                if v is None:
                    r = None
            return r
        if h == "or":
            r = False
            for x in ck[1:]:
                v = eval_ck(x, facts)
                if v is True:
                    return True
                if v is None:
                    r = None
            return r
        if h == "not":
            v = eval_ck(ck[1], facts)
            return None if v is None else (not v)
    return None


def undecided_leaf(ck, facts):
    if eval_ck(ck, facts) is not None:
        return None
    if isinstance(ck, tuple) and ck and ck[0] in ("and", "or", "not"):
        for x in ck[1:]:
            r = undecided_leaf(x, facts)
            if r is not None:
                return r
        return None
    return ck


def psubst_in_mono(p, mono, atom_id, q):
    """p with atom `atom_id` (power 1) replaced by polynomial q inside monomial `mono` only."""
    c = p.m[mono]
    rest = tuple((a, pw) for a, pw in mono if a != atom_id)
    pw_a = dict(mono)[atom_id]
    if pw_a != 1:
        return None
    m = dict(p.m)
    del m[mono]
    base = Poly(m)
    return padd(base, pmul(Poly({rest: c}), q))


def psubst(p, atom_id, q):
    """p with every occurrence (power 1) of atom replaced by q; None if other powers occur."""
    out = Poly()
    for mono, c in p.m.items():
        d = dict(mono)
        if atom_id in d:
            if d[atom_id] != 1:
                return None
            rest = tuple((a, pw) for a, pw in mono if a != atom_id)
            out = padd(out, pmul(Poly({rest: c}), q))
        else:
            out = padd(out, Poly({mono: c}))
    return out


def psubst_all(p, atom_id, q):
    """p with atom replaced by q at any positive power (q a constant 0/1 here)."""
    out = Poly()
    for mono, c in p.m.items():
        d = dict(mono)
        if atom_id in d:
            pw = d[atom_id]
            rest = tuple((a, w) for a, w in mono if a != atom_id)
            term = Poly({rest: c})
            for _ in range(abs(pw)):
                term = pmul(term, q)
            out = padd(out, term)
        else:
            out = padd(out, Poly({mono: c}))
    return out


class Prover(object):
    def __init__(self, A, base_nonneg, max_depth=14):
        self.A = A
        self.base_nonneg = base_nonneg      # fn(atom) -> bool for input atoms
        self.max_depth = max_depth
        self._nn_cache = {}
        self.steps = 0
        self.budget = 4000
        self.used_rules = set()
        self.deadline = None
        self.time_limit = 20.0

    # -------------------------------------------------------------- facts / conditions
    def cond_value(self, atom, facts):
        """Truth value of the condition of an ite atom under assumed facts, or None."""
        return eval_ck(atom.parts[3], dict(facts))

    def split_candidates(self, atom, facts=frozenset()):
        """The first undecided leaf of the condition, as the two fact assignments to try."""
        leaf = undecided_leaf(atom.parts[3], dict(facts))
        if leaf is None:
            leaf = atom.parts[3]
        return (leaf, True), (leaf, False)

    # -------------------------------------------------------------- atoms
    def is_load_match(self, atom):
        return atom.kind == "lmatch"

    def upper_bounds(self, atom, facts):
        if atom.kind == "ind":
            self.used_rules.add("R2")
            return [const(1)]
        if atom.kind == "min":
            self.used_rules.add("R1")
            return [atom.parts[0], atom.parts[1]]
        if self.is_load_match(atom):
            self.used_rules.add("R7")
            return [const(1)]
        return []

    def atom_nonneg(self, atom, facts, depth):
        key = (atom.id, facts)
        r = self._nn_cache.get(key)
        if r is not None:
            return r
        self._nn_cache[key] = False      # guard against cycles
        r = self._atom_nonneg(atom, facts, depth)
        self._nn_cache[key] = r
        return r

    def _atom_nonneg(self, atom, facts, depth):
        k = atom.kind
        if k in ("term", "elt", "let"):
            return bool(self.base_nonneg(atom))
        if k == "min":
            self.used_rules.add("R5")
            return self.nonneg(atom.parts[0], facts, depth + 1) and self.nonneg(atom.parts[1], facts, depth + 1)
        if k == "max":
            return self.nonneg(atom.parts[0], facts, depth + 1) or self.nonneg(atom.parts[1], facts, depth + 1)
        if k in ("abs", "ind", "lmatch"):
            return True
        if k in ("sumt", "poly"):
            self.used_rules.add("R5")
            return self.nonneg(atom.parts[0], facts, depth + 1)
        if k == "ite":
            if self.is_load_match(atom):
                self.used_rules.add("R7")
                return True
            v = self.cond_value(atom, facts)
            if v is True:
                return self.nonneg(atom.parts[1], facts, depth + 1)
            if v is False:
                return self.nonneg(atom.parts[2], facts, depth + 1)
            (kt, vt), (kf, vf) = self.split_candidates(atom, facts)
            wrapped = Poly({((atom.id, 1),): Fraction(1)})
            return (self.nonneg(wrapped, facts | frozenset([(kt, vt)]), depth + 1)
                    and self.nonneg(wrapped, facts | frozenset([(kf, vf)]), depth + 1))
        return False

    # -------------------------------------------------------------- main
    def resolve(self, p, facts):
        """Replace ite atoms whose condition is decided by the facts."""
        changed = True
        n = 0
        while changed and n < 20:
            changed = False
            n += 1
            for aid in list(p.atoms()):
                a = self.A.atoms[aid]
                if a.kind == "ind":
                    v = eval_ck(a.parts[1], dict(facts))
                    if v is not None:
                        q = psubst_all(p, aid, const(1 if v else 0))
                        p = q
                        changed = True
                        break
                if a.kind == "ite":
                    v = self.cond_value(a, facts)
                    if v is not None:
                        q = psubst(p, aid, a.parts[1] if v else a.parts[2])
                        if q is not None:
                            p = q
                            changed = True
                            break
        return p

    def nonneg(self, p, facts=frozenset(), depth=0):
        import time as _t
        if depth == 0:
            self.deadline = _t.time() + self.time_limit
        self.steps += 1
        if self.steps > self.budget or depth > self.max_depth:
            return False
        if self.deadline is not None and _t.time() > self.deadline:
            return False
        if len(p.m) > 400:
            return False
        p = self.resolve(p, facts)
        if p.is_zero():
            return True
        A = self.A
        bad = []
        for mono, c in p.m.items():
            ok = c > 0
            if ok:
                for aid, pw in mono:
                    if pw % 2 == 0:
                        continue
                    if not self.atom_nonneg(A.atoms[aid], facts, depth):
                        ok = False
                        break
            if not ok:
                bad.append(mono)
        if not bad:
            self.used_rules.add("R5")
            return True
        # case split on an undecided ite atom occurring anywhere in p
        for aid in sorted(p.atoms()):
            a = A.atoms[aid]
            if a.kind == "ite" and not self.is_load_match(a) and self.cond_value(a, facts) is None:
                (kt, vt), (kf, vf) = self.split_candidates(a, facts)
                self.used_rules.add("case-split")
                return (self.nonneg(p, facts | frozenset([(kt, vt)]), depth + 1)
                        and self.nonneg(p, facts | frozenset([(kf, vf)]), depth + 1))
        for aid in sorted(p.atoms()):
            a = A.atoms[aid]
            if a.kind == "ind" and eval_ck(a.parts[1], dict(facts)) is None:
                self.used_rules.add("case-split")
                return (self.nonneg(p, facts | frozenset([(a.parts[1], True)]), depth + 1)
                        and self.nonneg(p, facts | frozenset([(a.parts[1], False)]), depth + 1))
        # Σ_t: group monomials sharing the same scalar rest and prove the summand point-wise
        g = self.try_sums(p, facts, depth)
        if g is not None:
            return g
        # monotone replacement inside a negative monomial
        for mono in bad:
            c = p.m[mono]
            if c > 0:
                continue
            for aid, pw in mono:
                if pw != 1:
                    continue
                a = A.atoms[aid]
                others_ok = all(self.atom_nonneg(A.atoms[b], facts, depth) or q % 2 == 0
                                for b, q in mono if b != aid)
                if not others_ok:
                    continue
                for ub in self.upper_bounds(a, facts):
                    q = psubst_in_mono(p, mono, aid, ub)
                    if q is not None and self.nonneg(q, facts, depth + 1):
                        if a.kind != "min":
                            self.used_rules.add("R2")
                        return True
        return False

    def try_sums(self, p, facts, depth):
        A = self.A
        groups = {}
        for mono, c in p.m.items():
            sums = [(aid, pw) for aid, pw in mono if A.atoms[aid].kind == "sumt"]
            if len(sums) != 1 or sums[0][1] != 1:
                if c > 0 and all(self.atom_nonneg(A.atoms[a], facts, depth) or q % 2 == 0 for a, q in mono):
                    continue         # a harmless non-negative extra term
                return None
            rest = tuple((a, q) for a, q in mono if a != sums[0][0])
            inner = A.atoms[sums[0][0]].parts[0]
            groups[rest] = padd(groups.get(rest, Poly()), pscale(inner, c))
        if not groups:
            return None
        self.used_rules.add("sum-pointwise")
        for rest, inner in groups.items():
            if not all(self.atom_nonneg(A.atoms[a], facts, depth) or q % 2 == 0 for a, q in rest):
                return False
            if not self.nonneg(inner, facts, depth + 1):
                return False
        return True

    def le(self, a, b, facts=frozenset()):
        self.used_rules.add("R6")
        return self.nonneg(padd(b, a, -1), facts)
