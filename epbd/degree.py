"""Degree (dimension) inference over normal forms (DESIGN §3.2).

Every atom has a degree vector (energy scale, reference area); monomials add, sums need equal
degrees.  Reports: mixed additions, scale-dependent guards (comparison of a non-homogeneous or
degree != 0 quantity with a non-zero literal), and reductions over the step axis of intensive
(energy-degree 0) per-step quantities (time-extensivity, C09/T2)."""
from fractions import Fraction

from .alg import Poly


class DegreeAnalysis(object):
    def __init__(self, A, base_degree, admitted_guard=None, dim=2):
        self.A = A
        self.dim = dim                       # 2: (energy, area); 3: (energy, area, step-extensivity)
        self.Z = tuple(Fraction(0) for _ in range(dim))
        self.base = base_degree              # fn(atom) -> (e, a) or None (unknown)
        self.admitted = admitted_guard or (lambda atom, poly: False)
        self.cache = {}
        self.issues = []                     # (kind, description)
        self.guards = []                     # every comparison guard seen (atom, homogeneous degree or None)
        self.intensive_sums = []
        self._seen_issue = set()

    def issue(self, kind, desc, atom=None):
        k = (kind, atom.id if atom is not None else desc)
        if k in self._seen_issue:
            return
        self._seen_issue.add(k)
        self.issues.append((kind, desc))

    def poly(self, p):
        """Degree of a polynomial: a tuple, 'zero' for the zero polynomial, None if mixed/unknown."""
        if p.is_zero():
            return "zero"
        degs = set()
        for mono, c in p.m.items():
            d = self.mono(mono)
            if d is None:
                return None
            degs.add(d)
        if len(degs) == 1:
            return degs.pop()
        self.issue("mixed-addition", "terms of different degree are added: %s" % self.A.show(p, 2)[:300])
        return None

    def mono(self, mono):
        acc = [Fraction(0)] * self.dim
        for aid, pw in mono:
            d = self.atom(self.A.atoms[aid])
            if d is None:
                return None
            if d == "zero":
                return self.Z
            for i in range(self.dim):
                acc[i] += d[i] * pw
        return tuple(acc)

    def atom(self, at):
        r = self.cache.get(at.id, "?")
        if r != "?":
            return r
        self.cache[at.id] = None
        r = self._atom(at)
        self.cache[at.id] = r
        return r

    def _atom(self, at):
        k = at.kind
        Z = self.Z
        if k in ("term", "elt"):
            d = self.base(at)
            if d is None:
                self.issue("unknown-degree", "no degree known for %s" % self.A.show_atom(at, 2)[:200], at)
            return d
        if k in ("min", "max"):
            d1, d2 = self.poly(at.parts[0]), self.poly(at.parts[1])
            if d1 == "zero":
                return d2 if d2 != "zero" else Z
            if d2 == "zero":
                return d1
            if d1 is None or d2 is None:
                return None
            if d1 != d2:
                self.issue("mixed-min", "min/max of quantities of different degree: %s" % self.A.show_atom(at, 2)[:300], at)
                return None
            return d1
        if k == "abs":
            d = self.poly(at.parts[0])
            return Z if d == "zero" else d
        if k == "poly":
            d = self.poly(at.parts[0])
            return Z if d == "zero" else d
        if k == "sumt":
            d = self.poly(at.parts[0])
            if d == "zero":
                return Z
            if d is not None and d[0] == 0:
                self.intensive_sums.append(at)
            if d is not None and self.dim >= 3:
                # summing over the steps removes one power of the step length
                d = d[:2] + (d[2] - 1,) + d[3:]
            return d
        if k == "lmatch":
            d = self.poly(at.parts[0])
            if d not in (Z, "zero"):
                self.issue("scale-dependent-guard", "load-matching argument is not a pure ratio: %s"
                           % self.A.show_atom(at, 2)[:300], at)
            return Z
        if k == "ind":
            self.guard(at)
            return Z
        if k == "let":
            d = self.poly(self.A.scalar(at.parts[0]))
            return Z if d == "zero" else d
        if k == "ite":
            d1, d2 = self.poly(at.parts[1]), self.poly(at.parts[2])
            if d1 == "zero":
                return d2 if d2 != "zero" else Z
            if d2 == "zero" or d1 == d2:
                return d1
            self.issue("mixed-ite", "branches of different degree", at)
            return None
        return None

    def guard(self, at):
        """An indicator: comparisons must be scale-free (homogeneous), else admitted explicitly."""
        ck = at.parts[1]
        self._guard_ck(at, ck)

    def _guard_ck(self, at, ck):
        if not isinstance(ck, tuple) or not ck:
            return
        if ck[0] in ("lt0", "le0", "eq0") and isinstance(ck[1], int):
            d = self.A.poly_of_pid(ck[1])
            degs = set()
            unknown = False
            for mono, c in d.m.items():
                dm = self.mono(mono)
                if dm is None:
                    unknown = True
                else:
                    degs.add(dm)
            homogeneous = (len(degs) <= 1) and not unknown
            self.guards.append((at, d, homogeneous))
            if not homogeneous and not self.admitted(at, d):
                self.issue("scale-dependent-guard",
                           "comparison mixes degrees (absolute threshold): %s" % self.A.show(d, 2)[:300], at)
        elif ck[0] in ("and", "or", "not"):
            for x in ck[1:]:
                self._guard_ck(at, x)
