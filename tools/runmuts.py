import subprocess, sys
f=sys.argv[1]; props=sys.argv[2:]
for i,m in enumerate(open(f).read().split('\n##\n')):
    m=m.strip('\n')
    if not m: continue
    path,old,new=m.split('@@')
    p='/repo/'+path; s=open(p).read()
    if s.count(old)<1: print(i,'PATTERN-NOT-FOUND',old[:50]); continue
    open(p,'w').write(s.replace(old,new,1))
    try:
        for c in props:
            r=subprocess.run([sys.executable,'/verif/check.py',c],stdout=subprocess.PIPE,stderr=subprocess.STDOUT,text=True,timeout=1200)
            rules=[l.strip()[6:] for l in r.stdout.splitlines() if l.startswith('  rule:')]
            err=[l for l in r.stdout.splitlines() if 'CHECKER' in l or 'BuildError' in l or 'error' in l.lower()][:2]
            print(i,path,c,'exit',r.returncode,rules[:3],err if r.returncode==2 else '')
    finally:
        subprocess.run(['git','-C','/repo','checkout','--','.'])
