#!/usr/bin/env python3
"""Apply each seeded change to /repo, run the check of its property (plus extra checks given),
undo it straight afterwards.  usage: run_seeded.py <dir>... [--also C01,C02]"""
import json, os, subprocess, sys
dirs = [a for a in sys.argv[1:] if not a.startswith('--')]
also = []
for a in sys.argv[1:]:
    if a.startswith('--also'):
        also = a.split('=')[1].split(',')
import glob
if not dirs:
    dirs = sorted(glob.glob('/verif/seeded/C*'))
RESULTS = {}
for d in dirs:
    name = os.path.basename(d.rstrip('/'))
    prop = name.split('_')[0]
    patch = os.path.join(d, 'patch.diff')
    r = subprocess.run(['git', '-C', '/repo', 'apply', '--check', patch], stdout=subprocess.PIPE, stderr=subprocess.STDOUT, text=True)
    if r.returncode != 0:
        print('%s: PATCH-DOES-NOT-APPLY' % name); continue
    subprocess.run(['git', '-C', '/repo', 'apply', patch])
    try:
        res = []
        for c in [prop] + [x for x in also if x != prop]:
            if not os.path.exists('/verif/rules/%s.py' % c.lower()):
                res.append('%s:no-pack' % c); continue
            p = subprocess.run([sys.executable, '/verif/check.py', c], stdout=subprocess.PIPE, stderr=subprocess.STDOUT, text=True, timeout=900)
            rules = [l.strip()[6:] for l in p.stdout.splitlines() if l.startswith('  rule:')]
            res.append('%s:exit=%d%s' % (c, p.returncode, (' [' + '; '.join(rules[:2]) + ']') if rules else ''))
            RESULTS.setdefault(name, {})[c] = {'exit': p.returncode, 'rules': rules[:6]}
        print('%s: %s' % (name, ' | '.join(res)))
    finally:
        subprocess.run(['git', '-C', '/repo', 'checkout', '--', '.'])
        subprocess.run(['git', '-C', '/repo', 'clean', '-qfd'])

if '--write' in sys.argv:
    path = '/verif/seeded/results.json'
    old = json.load(open(path)) if os.path.exists(path) else {}
    for k, v in RESULTS.items():
        old.setdefault(k, {}).update(v)
    json.dump(old, open(path, 'w'), indent=1, sort_keys=True)
