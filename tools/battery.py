#!/usr/bin/env python3
"""Checker self-validation battery.  Every entry is applied to a *scratch copy* of /repo's tracked
sources (under $TMPDIR, outside /repo and /verif), the property's check is run against that copy
(EPBD_REPO), and the copy is removed at once.  /repo itself is never touched.

Sources of entries:
  tools/mutants/muts_cNN.txt   hand-written breaking edits  `<file>@@<old text>@@<new text>`
                               (an entry starts at a line `src/...@@`; `##` lines are separators)
  tools/mutants/benign_cNN.txt behaviour-preserving edits that must stay silent
  seeded/<id>/patch.diff       changes written by independent sub-agents (git apply)
  benign/<id>/patch.diff       behaviour-preserving refactorings written by independent sub-agents (--refactorings):
                               every check whose value graph includes the touched files must stay silent
  --reverts                    the repository's own `fix:` commits reverted (the defect must be re-found)

usage: battery.py [-j N] [--seeded] [--reverts] [c05 c10 ...]  -> tools/mutants/results.json
"""
import concurrent.futures as cf
import glob
import json
import os
import re
import shutil
import subprocess
import sys
import tempfile

V = os.path.dirname(os.path.dirname(os.path.abspath(__file__)))
REPO = "/repo"
REVERTS = {   # fix commit subject prefix -> checks that must report once it is reverted
    "fix: cogenerated-electricity": ["C09", "C02"],
    "fix: only replace the auxiliary": ["C06", "C10"],
    "fix: create reassigned auxiliary": ["C10"],
    "fix: low-SCOP": ["C15"],
    "fix: keep the grid electricity": ["C08"],
    "fix: save CTE_KEXP": ["C19"],
    "fix: close the <Demanda>": ["C17"],
    "fix: write the building demand": ["C18"],
    "fix: reject DEMANDA lines": ["C16"],
    "fix: Energy::is_electricity": ["C16", "C08"],
    "fix: only override _Unwind_Resume": ["C16"],
    "fix: balance electricity when auxiliary": ["C06"],
}


AFFECTS = {   # source file prefix -> checks whose value graphs include it (used for behaviour-preserving refactorings)
    "src/balance.rs": ["C01", "C02", "C03", "C04", "C09", "C10", "C11", "C12", "C13"],
    "src/components.rs": ["C05", "C06", "C10", "C16", "C18", "C09", "C11"],
    "src/wfactors.rs": ["C07", "C08", "C02", "C19", "C16"],
    "src/cte.rs": ["C15", "C16", "C08", "C11", "C10"],
    "src/bin/cteepbd.rs": ["C19", "C16", "C18"],
    "src/types/tmeta.rs": ["C16", "C18", "C19", "C10"],
    "src/vecops.rs": ["C01", "C04", "C05", "C06", "C09", "C16"],
    "src/types/needs": ["C16", "C05", "C18", "C10"],
    "src/types/energy": ["C01", "C05", "C06", "C08", "C10", "C16", "C18"],
    "src/types/": ["C16", "C18", "C01", "C04"],
}


def checks_for_patch(path, own=None):
    files = re.findall(r"^\+\+\+ b/(\S+)", open(path).read(), re.M)
    props = [own] if own else []
    for f in files:
        for k, v in AFFECTS.items():
            if f.startswith(k):
                for p in v:
                    if p not in props:
                        props.append(p)
    return props


def entries(path):
    text = open(path).read()
    text = re.sub(r'\n##\n', '\n', text)
    starts = [m.start() for m in re.finditer(r'^src/[\w/\.]+@@', text, re.M)]
    out = []
    for i, s in enumerate(starts):
        e = starts[i + 1] if i + 1 < len(starts) else len(text)
        parts = text[s:e].rstrip('\n').split('@@')
        if len(parts) == 3:
            out.append(parts)
    return out


def scratch_copy():
    d = tempfile.mkdtemp(prefix="epbd_bat_")
    # the current working tree (not HEAD), without build output and git metadata
    subprocess.run(["rsync", "-a", "--exclude", "/target", "--exclude", "/.git", REPO + "/", d + "/"], check=True)
    return d


def run_one(job):
    key, props, kind, payload, worker = job
    d = scratch_copy()
    try:
        if kind == "edit":
            path, old, new = payload
            p = os.path.join(d, path)
            s = open(p).read()
            if s.count(old) < 1:
                return key, {"status": "pattern-not-found", "file": path, "old": old[:80]}
            open(p, "w").write(s.replace(old, new, 1))
            desc = {"file": path, "old": old[:100], "new": new[:100]}
        elif kind == "patch":
            r = subprocess.run(["patch", "-p1", "-s", "-d", d, "-i", payload], stdout=subprocess.PIPE, stderr=subprocess.STDOUT, text=True)
            if r.returncode != 0:
                return key, {"status": "patch-does-not-apply", "patch": payload}
            desc = {"patch": payload}
        else:   # revert of a commit
            diff = subprocess.run(["git", "-C", REPO, "show", payload], stdout=subprocess.PIPE, text=True).stdout
            r = subprocess.run(["patch", "-p1", "-R", "-s", "-d", d], input=diff, stdout=subprocess.PIPE, stderr=subprocess.STDOUT, text=True)
            if r.returncode != 0:
                return key, {"status": "revert-does-not-apply", "commit": payload}
            desc = {"reverted_commit": payload}
        env = dict(os.environ, EPBD_REPO=d, EPBD_TARGET_SUFFIX="-w%d" % worker, EPBD_EVIDENCE_DIR=os.path.join(d, "_evidence"))
        os.makedirs(env["EPBD_EVIDENCE_DIR"], exist_ok=True)
        res = dict(desc)
        res["checks"] = {}
        for prop in props:
            r = subprocess.run([sys.executable, os.path.join(V, "check.py"), prop], stdout=subprocess.PIPE, stderr=subprocess.STDOUT,
                               text=True, env=env, timeout=1800)
            rules = [l.strip()[6:] for l in r.stdout.splitlines() if l.startswith("  rule:")]
            st = {0: "MISSED", 1: "caught", 2: "checker-error"}.get(r.returncode, str(r.returncode))
            res["checks"][prop] = {"status": st, "rules": rules[:4]}
        sts = [c["status"] for c in res["checks"].values()]
        res["status"] = "caught" if "caught" in sts else ("checker-error" if "checker-error" in sts else "MISSED")
        if key.startswith("benign/"):
            res["status"] = {"MISSED": "silent (as it must be)", "caught": "FALSE-ALARM"}.get(res["status"], res["status"])
            res["alarms"] = dict((c, v["rules"]) for c, v in res["checks"].items() if v["status"] != "MISSED")
        return key, res
    finally:
        shutil.rmtree(d, ignore_errors=True)


def main():
    args = sys.argv[1:]
    nj = 4
    if "-j" in args:
        i = args.index("-j")
        nj = int(args[i + 1])
        del args[i:i + 2]
    out_path = None
    if "--out" in args:
        i = args.index("--out")
        out_path = args[i + 1]
        del args[i:i + 2]
    wbase = 0
    if "--wbase" in args:
        i = args.index("--wbase")
        wbase = int(args[i + 1])
        del args[i:i + 2]
    no_hand = "--no-hand" in args
    do_seeded = "--seeded" in args
    do_reverts = "--reverts" in args
    want = [a.lower() for a in args if not a.startswith("-")]
    jobs = []
    for f in ([] if no_hand else sorted(glob.glob(os.path.join(V, "tools", "mutants", "muts_c*.txt")))):
        prop = re.search(r"muts_(c\d\d)", f).group(1)
        if want and prop not in want:
            continue
        for i, (path, old, new) in enumerate(entries(f)):
            jobs.append(["hand/%s#%d" % (prop.upper(), i), [prop.upper()], "edit", (path, old, new)])
    for f in ([] if no_hand else sorted(glob.glob(os.path.join(V, "tools", "mutants", "benign_c*.txt")))):
        prop = re.search(r"benign_(c\d\d)", f).group(1)
        if want and prop not in want:
            continue
        for i, (path, old, new) in enumerate(entries(f)):
            jobs.append(["benign/%s#%d" % (prop.upper(), i), [prop.upper()], "edit", (path, old, new)])
    for f in ([] if no_hand else sorted(glob.glob(os.path.join(V, "tools", "mutants", "benign_c*.diff")))):
        prop = re.search(r"benign_(c\d\d)", f).group(1)
        if want and prop not in want:
            continue
        jobs.append(["benign/%s/%s" % (prop.upper(), os.path.basename(f)[len("benign_c00_"):-5]), [prop.upper()], "patch", f])
    if "--refactorings" in args:
        for dname in sorted(glob.glob(os.path.join(V, "benign", "C*"))):
            name = os.path.basename(dname)
            prop = name.split("_")[0]
            if want and prop.lower() not in want and name.lower() not in want:
                continue
            pf = os.path.join(dname, "patch.diff")
            jobs.append(["benign/refactoring/%s" % name, checks_for_patch(pf, prop), "patch", pf])
    if do_seeded:
        for dname in sorted(glob.glob(os.path.join(V, "seeded", "C*"))):
            name = os.path.basename(dname)
            prop = name.split("_")[0]
            if want and prop.lower() not in want and name.lower() not in want:
                continue
            jobs.append(["seeded/%s" % name, [prop], "patch", os.path.join(dname, "patch.diff")])
    if do_reverts:
        log = subprocess.run(["git", "-C", REPO, "log", "--format=%h %s"], stdout=subprocess.PIPE, text=True).stdout.splitlines()
        for line in log:
            h, subj = line.split(" ", 1)
            for pre, props in REVERTS.items():
                if subj.startswith(pre) and (not want or any(p.lower() in want for p in props)):
                    jobs.append(["revert/%s" % h, props, "revert", h])
    for i, j in enumerate(jobs):
        j.append(wbase + i % nj)
    res_path = out_path or os.path.join(V, "tools", "mutants", "results.json")
    results = json.load(open(res_path)) if os.path.exists(res_path) else {}
    # one worker = one target dir: jobs of a worker run one after the other
    by_worker = {}
    for j in jobs:
        by_worker.setdefault(j[4], []).append(j)

    def work(js):
        out = []
        for j in js:
            try:
                out.append(run_one(j))
            except Exception as ex:      # noqa
                out.append((j[0], {"status": "error", "why": str(ex)[:200]}))
            k, r = out[-1]
            print(k, r.get("status"), r.get("alarms") if r.get("alarms") else [c.get("rules", [])[:1] for c in r.get("checks", {}).values()], flush=True)
        return out
    with cf.ThreadPoolExecutor(max_workers=nj) as ex:
        for out in ex.map(work, by_worker.values()):
            for k, r in out:
                results[k] = r
    json.dump(results, open(res_path, "w"), indent=1, sort_keys=True)
    n = len(jobs)
    caught = sum(1 for j in jobs if results.get(j[0], {}).get("status") == "caught")
    silent = sum(1 for j in jobs if str(results.get(j[0], {}).get("status")).startswith("silent"))
    print("%d entries, %d caught, %d benign silent" % (n, caught, silent))
    return 0


if __name__ == "__main__":
    sys.exit(main())
