#!/usr/bin/env python3
"""Checker self-validation helper: apply a textual mutation to /repo, run checks, revert.
usage: mut.py <file> <old> <new> <Cnn> [<Cnn>...]   (never commits; always reverts)"""
import subprocess, sys, os
f, old, new = sys.argv[1:4]
props = sys.argv[4:]
p = os.path.join('/repo', f)
s = open(p).read()
if s.count(old) < 1:
    print('PATTERN-NOT-FOUND'); sys.exit(3)
open(p, 'w').write(s.replace(old, new, 1))
try:
    for c in props:
        r = subprocess.run([sys.executable, '/verif/check.py', c], stdout=subprocess.PIPE, stderr=subprocess.STDOUT, text=True)
        lines = [l for l in r.stdout.splitlines() if l.startswith(('VIOLATION', '  rule', '  why', 'CHECKER', c + ':', 'KNOWN'))]
        print('\n'.join(lines[:14]))
        print('-> exit', r.returncode)
finally:
    subprocess.run(['git', '-C', '/repo', 'checkout', '--', f])
