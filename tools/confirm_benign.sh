#!/bin/bash
# Confirm sub-agent refactorings against the current /repo HEAD in a scratch worktree:
#   clean tree: demo passes;  patched tree: existing suite passes AND demo still passes.
# usage: confirm_benign.sh <outdir>...   (each contains patch.diff demo.rs meta.json)
WT=/tmp/confirm_wt_b
rm -rf $WT; git -C /repo worktree prune; git -C /repo worktree add -q --detach $WT HEAD || exit 1
export CARGO_TARGET_DIR=$WT/target CARGO_NET_OFFLINE=true
for d in "$@"; do
  id=$(basename $d)
  git -C $WT checkout -q -- . ; git -C $WT clean -qfd -e target
  res="$id:"
  if ! git -C $WT apply --check $d/patch.diff 2>/dev/null; then echo "$res PATCH-DOES-NOT-APPLY"; continue; fi
  cp $d/demo.rs $WT/tests/demo_benign.rs
  if (cd $WT && cargo test --offline --test demo_benign >/tmp/confirmb_$id.clean.log 2>&1); then res="$res clean-demo=pass"; else res="$res clean-demo=FAIL"; fi
  git -C $WT apply $d/patch.diff
  if (cd $WT && cargo test --offline --no-fail-fast >/tmp/confirmb_$id.patched.log 2>&1); then res="$res patched-suite+demo=pass"; else res="$res patched-suite+demo=FAIL"; fi
  warn=$(grep -c "^warning" /tmp/confirmb_$id.patched.log)
  echo "$res warnings=$warn"
done
git -C /repo worktree remove --force $WT
