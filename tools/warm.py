#!/usr/bin/env python3
"""setup helper: pre-build the dependency target dir and the facts of the current tree (cache only)."""
import os, sys
sys.path.insert(0, os.path.dirname(os.path.dirname(os.path.abspath(__file__))))
from epbd import facts
d, info = facts.build_facts('dev')
print('facts ready:', d, info.get('wall_s'))
