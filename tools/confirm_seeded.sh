#!/bin/bash
# Confirm sub-agent mutants against the current /repo HEAD in a scratch worktree:
#   clean tree: demo passes;  patched tree: existing suite passes AND demo fails.
# usage: confirm_seeded.sh <outdir>...   (each contains patch.diff demo.rs meta.json)
WT=/tmp/confirm_wt
rm -rf $WT; git -C /repo worktree prune; git -C /repo worktree add -q --detach $WT HEAD || exit 1
export CARGO_TARGET_DIR=$WT/target CARGO_NET_OFFLINE=true
for d in "$@"; do
  id=$(basename $d)
  git -C $WT checkout -q -- . ; git -C $WT clean -qfd -e target
  res="$id:"
  if ! git -C $WT apply --check $d/patch.diff 2>/dev/null; then echo "$res PATCH-DOES-NOT-APPLY"; continue; fi
  cp $d/demo.rs $WT/tests/demo_seeded.rs
  if (cd $WT && cargo test --offline --test demo_seeded >/tmp/confirm_$id.clean.log 2>&1); then res="$res clean-demo=pass"; else res="$res clean-demo=FAIL"; fi
  git -C $WT apply $d/patch.diff
  (cd $WT && cargo test --offline --no-fail-fast >/tmp/confirm_$id.patched.log 2>&1)
  suite_fail=$(grep -E "^test .* FAILED" /tmp/confirm_$id.patched.log | grep -v "demo" | wc -l)
  demo_fail=$(grep -A200 "Running tests/demo_seeded.rs" /tmp/confirm_$id.patched.log | grep -E "^test result: FAILED|^test .* FAILED" | head -1 | wc -l)
  compiled=$(grep -c "error\[E\|could not compile" /tmp/confirm_$id.patched.log)
  res="$res compile_errors=$compiled suite_failures=$suite_fail demo_fails_with_patch=$demo_fail"
  echo "$res"
done
git -C /repo worktree remove --force $WT
