#!/bin/bash
# Confirm sub-agent mutants against the current /repo HEAD in a scratch worktree:
#   clean tree: demo passes;  patched tree: existing suite passes AND demo fails.
# usage: confirm_seeded.sh <outdir>...   (each contains patch.diff demo.rs meta.json)
WT=/tmp/confirm_wt
rm -rf $WT; git -C /repo worktree prune; git -C /repo worktree add -q --detach $WT HEAD || exit 1
export CARGO_TARGET_DIR=$WT/target CARGO_NET_OFFLINE=true
for d in "$@"; do
  id=$(basename $d)
  git -C $WT checkout -q -- . ; git -C $WT clean -qfd -e target
  res="$id:"
  if ! git -C $WT apply --check $d/patch.diff 2>/dev/null; then echo "$res PATCH-DOES-NOT-APPLY"; continue; fi
  cp $d/demo.rs $WT/tests/demo_seeded.rs
  if (cd $WT && cargo test --offline --test demo_seeded >/tmp/confirm_$id.clean.log 2>&1); then res="$res clean-demo=pass"; else res="$res clean-demo=FAIL"; fi
  git -C $WT apply $d/patch.diff
  (cd $WT && cargo test --offline --no-fail-fast >/tmp/confirm_$id.patched.log 2>&1)
  read suite_fail demo_fail <<< $(python3 - /tmp/confirm_$id.patched.log <<'PY'
import re, sys
pl = open(sys.argv[1]).read()
sf = 0; df = 0
for s in re.split(r'\n\s+Running ', pl)[1:]:
    head = s.split('\n', 1)[0]
    m = re.search(r'test result: (\w+)\. (\d+) passed; (\d+) failed', s)
    if not m: continue
    if 'demo_seeded' in head: df = 1 if int(m.group(3)) > 0 else 0
    else: sf += int(m.group(3))
print(sf, df)
PY
)
  compiled=$(grep -c "error\[E\|could not compile" /tmp/confirm_$id.patched.log)
  res="$res compile_errors=$compiled suite_failures=$suite_fail demo_fails_with_patch=$demo_fail"
  echo "$res"
done
git -C /repo worktree remove --force $WT
