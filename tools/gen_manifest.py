#!/usr/bin/env python3
"""Regenerate MANIFEST.json from /verif/rules/claims.json (single source for claims)."""
import json, os
V = os.path.dirname(os.path.dirname(os.path.abspath(__file__)))
claims = json.load(open(os.path.join(V, 'rules', 'claims.json')))
props = [json.loads(l)['id'] for l in open(os.path.join(V, 'properties.jsonl'))]
checks = []
na = []
for pid in props:
    c = claims.get(pid)
    if c and c.get('claimed'):
        checks.append({
            "property_id": pid,
            "quick_cmd": "python3 check.py %s --tier quick" % pid,
            "thorough_cmd": "python3 check.py %s --tier thorough" % pid,
            "evidence_file": "/verif/evidence/%s.json" % pid,
            "replay_cmd_template": "python3 check.py %s --replay {path}" % pid,
            "engine": "epbdlint+rules",
            "level_claimed": {"category": "other", "text": c['text'], "design_ref": c.get('design_ref', 'DESIGN.md §5/' + pid)},
            "level_note": c['note'],
            "technique": c['technique'],
        })
    else:
        na.append({"property_id": pid, "reason": (c or {}).get('reason', 'rule pack not finished yet; not claimed until its engine exists (DESIGN §11)')})
m = {
    "version": 1,
    "setup_cmd": "cd /verif/engine/epbdlint && CARGO_NET_OFFLINE=true cargo +nightly build --release --offline && cd /verif && python3 tools/warm.py",
    "hooks": {"guard": "cteepbd_verif", "enable": "none needed: the analysis reads the source the build reads (no instrumentation in /repo)",
              "baseline_off_cmd": "cd /repo && cargo test --workspace --no-fail-fast --offline", "source_commits": [], "add_only": True},
    "engines": [{"name": "epbdlint+rules", "path": "/verif/engine/epbdlint, /verif/epbd, /verif/rules",
                 "serves_properties": [c['property_id'] for c in checks],
                 "kind_free_text": "static analysis: rustc_private front end dumping typed THIR / expanded-AST templates of /repo's working tree; Python symbolic value-graph evaluator (inlining, finite-map unrolling, fold closed forms) and per-property rule packs (normal-form algebra, order rules, gate enumeration, template grammars); no execution of cteepbd, no solver"}],
    "checks": checks,
    "not_applicable": na,
    "notes": "All checks are static (source only). Exit 0/1 per contract; exit 2 + CHECKER-ERROR if the repository does not compile or a checker self-test fails. Known findings: /verif/known_findings.json.",
}
json.dump(m, open(os.path.join(V, 'MANIFEST.json'), 'w'), indent=1, ensure_ascii=False)
print(len(checks), 'claimed;', len(na), 'not applicable')
