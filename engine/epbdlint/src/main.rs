// epbdlint: rustc front-end dumper for the cteepbd static checks.
//
// Runs as RUSTC_WORKSPACE_WRAPPER under `cargo +nightly check`. For the workspace
// member `cteepbd` (lib and bin) it writes ONE fact file per compiler process:
//   $EPBD_OUT/facts-<lib|bin>.json
// containing, all as resolved/typed by rustc itself:
//   * every format_args! template of the expanded AST (pieces, holes, precision, arg spans)
//   * serde field attributes of the expanded AST
//   * the typed THIR of every body owner (fns, methods, closures, consts)
//   * the ADT table (structs/enums with fields and types), the impl table, session facts
// Nothing is decided here; the rule packs in /verif/rules decide.
#![feature(rustc_private)]
#![allow(clippy::all)]

extern crate rustc_abi;
extern crate rustc_ast;
extern crate rustc_ast_pretty;
extern crate rustc_driver;
extern crate rustc_hir;
extern crate rustc_interface;
extern crate rustc_middle;
extern crate rustc_session;
extern crate rustc_span;

mod json;
mod astpass;
mod thirdump;

use rustc_driver::{Callbacks, Compilation};
use rustc_interface::interface::Compiler;
use rustc_middle::ty::TyCtxt;

struct Cb;

impl Callbacks for Cb {
    fn after_expansion<'tcx>(&mut self, _c: &Compiler, tcx: TyCtxt<'tcx>) -> Compilation {
        let krate = tcx.crate_name(rustc_span::def_id::LOCAL_CRATE);
        let want = std::env::var("EPBD_CRATE").unwrap_or_else(|_| "cteepbd".to_string());
        if krate.as_str() != want {
            return Compilation::Continue;
        }
        let out_dir = match std::env::var("EPBD_OUT") {
            Ok(d) => d,
            Err(_) => return Compilation::Continue,
        };
        let is_bin = tcx
            .crate_types()
            .iter()
            .any(|t| matches!(t, rustc_session::config::CrateType::Executable));
        let kind = if is_bin { "bin" } else { "lib" };

        let mut out = json::Obj::new();
        out.str("crate", krate.as_str());
        out.str("crate_kind", kind);
        out.str(
            "panic_strategy",
            &format!("{:?}", tcx.sess.panic_strategy()),
        );
        out.raw(
            "overflow_checks",
            if tcx.sess.overflow_checks() { "true" } else { "false" },
        );
        out.raw(
            "cfg_test",
            if tcx.sess.is_test_crate() { "true" } else { "false" },
        );

        // 1. expanded AST (must happen before anything touches HIR)
        {
            let resolver = tcx.resolver_for_lowering().borrow();
            let krate_ast = &resolver.1;
            let ast_facts = astpass::run(tcx, krate_ast);
            out.raw("fmt_templates", &ast_facts.templates);
            out.raw("field_attrs", &ast_facts.field_attrs);
            out.raw("fn_attrs", &ast_facts.fn_attrs);
            out.raw("loops", &ast_facts.loops);
        }

        // 2. THIR + type tables
        let t = thirdump::run(tcx);
        out.raw("bodies", &t.bodies);
        out.raw("types", &t.types);
        out.raw("adts", &t.adts);
        out.raw("impls", &t.impls);

        let path = format!("{}/facts-{}.json", out_dir, kind);
        let s = out.finish();
        std::fs::write(&path, s).expect("cannot write fact file");
        Compilation::Continue
    }
}

fn main() {
    let mut args: Vec<String> = std::env::args().collect();
    // RUSTC_WORKSPACE_WRAPPER passes the real rustc path as argv[1]
    if args.len() > 1 && (args[1].ends_with("rustc") || args[1].contains("/rustc")) {
        args.remove(1);
    }
    rustc_driver::run_compiler(&args, &mut Cb);
}
