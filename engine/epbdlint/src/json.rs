// Minimal JSON writer (no external crates are available to the driver).

pub fn esc(s: &str) -> String {
    let mut o = String::with_capacity(s.len() + 2);
    o.push('"');
    for c in s.chars() {
        match c {
            '"' => o.push_str("\\\""),
            '\\' => o.push_str("\\\\"),
            '\n' => o.push_str("\\n"),
            '\r' => o.push_str("\\r"),
            '\t' => o.push_str("\\t"),
            c if (c as u32) < 0x20 => o.push_str(&format!("\\u{:04x}", c as u32)),
            c => o.push(c),
        }
    }
    o.push('"');
    o
}

pub struct Obj {
    buf: String,
    first: bool,
}

impl Obj {
    pub fn new() -> Self {
        Obj { buf: String::from("{"), first: true }
    }
    fn key(&mut self, k: &str) {
        if !self.first {
            self.buf.push(',');
        }
        self.first = false;
        self.buf.push_str(&esc(k));
        self.buf.push(':');
    }
    pub fn str(&mut self, k: &str, v: &str) -> &mut Self {
        self.key(k);
        self.buf.push_str(&esc(v));
        self
    }
    pub fn raw(&mut self, k: &str, v: &str) -> &mut Self {
        self.key(k);
        self.buf.push_str(v);
        self
    }
    pub fn num<T: std::fmt::Display>(&mut self, k: &str, v: T) -> &mut Self {
        self.key(k);
        self.buf.push_str(&format!("{}", v));
        self
    }
    pub fn boolean(&mut self, k: &str, v: bool) -> &mut Self {
        self.key(k);
        self.buf.push_str(if v { "true" } else { "false" });
        self
    }
    pub fn opt_num(&mut self, k: &str, v: Option<usize>) -> &mut Self {
        self.key(k);
        match v {
            Some(n) => self.buf.push_str(&format!("{}", n)),
            None => self.buf.push_str("null"),
        }
        self
    }
    pub fn finish(mut self) -> String {
        self.buf.push('}');
        self.buf
    }
}

pub fn arr<I: IntoIterator<Item = String>>(items: I) -> String {
    let mut o = String::from("[");
    let mut first = true;
    for i in items {
        if !first {
            o.push(',');
        }
        first = false;
        o.push_str(&i);
    }
    o.push(']');
    o
}

pub fn nums<I: IntoIterator<Item = usize>>(items: I) -> String {
    arr(items.into_iter().map(|n| n.to_string()))
}
