// Expanded-AST pass: format_args! templates, serde field attributes, fn attributes, loops.

use crate::json::{self, Obj};
use rustc_ast as ast;
use rustc_ast::visit::{self, Visitor};
use rustc_middle::ty::TyCtxt;
use rustc_span::Span;

pub struct AstFacts {
    pub templates: String,
    pub field_attrs: String,
    pub fn_attrs: String,
    pub loops: String,
}

pub fn loc(tcx: TyCtxt<'_>, sp: Span) -> String {
    let sm = tcx.sess.source_map();
    let lo = sm.lookup_char_pos(sp.lo());
    let hi = sm.lookup_char_pos(sp.hi());
    let name = match &lo.file.name {
        rustc_span::FileName::Real(r) => match r.local_path() {
            Some(p) => p.to_string_lossy().to_string(),
            None => format!("{:?}", r),
        },
        other => format!("{:?}", other),
    };
    format!("{}:{}:{}:{}:{}", name, lo.line, lo.col.0 + 1, hi.line, hi.col.0 + 1)
}

pub fn mac_chain(sp: Span) -> Vec<String> {
    let mut v = vec![];
    if sp.from_expansion() {
        for e in sp.macro_backtrace() {
            match e.kind {
                rustc_span::ExpnKind::Macro(k, name) => v.push(format!("{:?}:{}", k, name)),
                rustc_span::ExpnKind::Desugaring(d) => v.push(format!("Desugar:{:?}", d)),
                rustc_span::ExpnKind::AstPass(p) => v.push(format!("AstPass:{:?}", p)),
                rustc_span::ExpnKind::Root => {}
            }
        }
    }
    v
}

struct V<'a, 'tcx> {
    tcx: TyCtxt<'tcx>,
    templates: Vec<String>,
    field_attrs: Vec<String>,
    fn_attrs: Vec<String>,
    loops: Vec<String>,
    item_stack: Vec<String>,
    _m: std::marker::PhantomData<&'a ()>,
}

fn attr_strings(attrs: &[ast::Attribute]) -> Vec<String> {
    attrs
        .iter()
        .filter(|a| !a.is_doc_comment())
        .map(|a| rustc_ast_pretty::pprust::attribute_to_string(a))
        .collect()
}

impl<'a, 'tcx> V<'a, 'tcx> {
    fn count(&self, c: &Option<ast::FormatCount>) -> String {
        match c {
            None => "null".to_string(),
            Some(ast::FormatCount::Literal(n)) => format!("{{\"lit\":{}}}", n),
            Some(ast::FormatCount::Argument(p)) => match p.index {
                Ok(i) => format!("{{\"arg\":{}}}", i),
                Err(_) => "{\"arg\":-1}".to_string(),
            },
        }
    }

    fn template(&mut self, sp: Span, fa: &ast::FormatArgs) {
        let tcx = self.tcx;
        let mut pieces = vec![];
        for p in fa.template.iter() {
            match p {
                ast::FormatArgsPiece::Literal(s) => {
                    let mut o = Obj::new();
                    o.str("lit", s.as_str());
                    pieces.push(o.finish());
                }
                ast::FormatArgsPiece::Placeholder(ph) => {
                    let mut o = Obj::new();
                    match ph.argument.index {
                        Ok(i) => o.num("arg", i),
                        Err(_) => o.num("arg", -1),
                    };
                    o.str("trait", &format!("{:?}", ph.format_trait));
                    o.raw("precision", &self.count(&ph.format_options.precision));
                    o.raw("width", &self.count(&ph.format_options.width));
                    o.boolean("alternate", ph.format_options.alternate);
                    pieces.push(o.finish());
                }
            }
        }
        let mut args = vec![];
        for a in fa.arguments.all_args() {
            let mut o = Obj::new();
            o.str("loc", &loc(tcx, a.expr.span));
            o.str("src", &rustc_ast_pretty::pprust::expr_to_string(&a.expr));
            let kind = match &a.kind {
                ast::FormatArgumentKind::Normal => "normal".to_string(),
                ast::FormatArgumentKind::Named(i) => format!("named:{}", i.name),
                ast::FormatArgumentKind::Captured(i) => format!("captured:{}", i.name),
            };
            o.str("kind", &kind);
            args.push(o.finish());
        }
        let mut o = Obj::new();
        o.str("loc", &loc(tcx, sp));
        o.str("fmt_loc", &loc(tcx, fa.span));
        o.str("callsite", &loc(tcx, sp.source_callsite()));
        o.raw("mac", &json::arr(mac_chain(sp).iter().map(|s| json::esc(s))));
        o.str("item", &self.item_stack.join("::"));
        o.raw("pieces", &json::arr(pieces));
        o.raw("args", &json::arr(args));
        self.templates.push(o.finish());
    }
}

impl<'a, 'tcx> Visitor<'a> for V<'a, 'tcx> {
    fn visit_expr(&mut self, e: &'a ast::Expr) {
        match &e.kind {
            ast::ExprKind::FormatArgs(fa) => self.template(e.span, fa),
            ast::ExprKind::Loop(..) | ast::ExprKind::While(..) | ast::ExprKind::ForLoop { .. } => {
                let k = match &e.kind {
                    ast::ExprKind::Loop(..) => "loop",
                    ast::ExprKind::While(..) => "while",
                    _ => "for",
                };
                let mut o = Obj::new();
                o.str("kind", k);
                o.str("loc", &loc(self.tcx, e.span));
                o.str("item", &self.item_stack.join("::"));
                o.boolean("from_expansion", e.span.from_expansion());
                self.loops.push(o.finish());
            }
            _ => {}
        }
        visit::walk_expr(self, e);
    }

    fn visit_item(&mut self, i: &'a ast::Item) {
        let name = match i.kind.ident() {
            Some(id) => id.name.to_string(),
            None => match &i.kind {
                ast::ItemKind::Impl(imp) => {
                    let ty = rustc_ast_pretty::pprust::ty_to_string(&imp.self_ty);
                    match &imp.of_trait {
                        Some(t) => format!(
                            "<impl {} for {}>",
                            rustc_ast_pretty::pprust::path_to_string(&t.trait_ref.path),
                            ty
                        ),
                        None => format!("<impl {}>", ty),
                    }
                }
                _ => "_".to_string(),
            },
        };
        self.item_stack.push(name);
        match &i.kind {
            ast::ItemKind::Struct(_, _, vd) => {
                for f in vd.fields() {
                    let a = attr_strings(&f.attrs);
                    let mut o = Obj::new();
                    o.str("item", &self.item_stack.join("::"));
                    o.str(
                        "field",
                        &f.ident.map(|i| i.name.to_string()).unwrap_or_default(),
                    );
                    o.str("ty", &rustc_ast_pretty::pprust::ty_to_string(&f.ty));
                    o.raw("attrs", &json::arr(a.iter().map(|s| json::esc(s))));
                    o.boolean("from_expansion", i.span.from_expansion());
                    self.field_attrs.push(o.finish());
                }
            }
            ast::ItemKind::Fn(_) => {
                let a = attr_strings(&i.attrs);
                let mut o = Obj::new();
                o.str("item", &self.item_stack.join("::"));
                o.str("loc", &loc(self.tcx, i.span));
                o.raw("attrs", &json::arr(a.iter().map(|s| json::esc(s))));
                self.fn_attrs.push(o.finish());
            }
            _ => {}
        }
        visit::walk_item(self, i);
        self.item_stack.pop();
    }

    fn visit_assoc_item(&mut self, i: &'a ast::AssocItem, ctxt: visit::AssocCtxt) {
        let name = i.kind.ident().map(|id| id.name.to_string()).unwrap_or_else(|| "_".into());
        self.item_stack.push(name);
        visit::walk_assoc_item(self, i, ctxt);
        self.item_stack.pop();
    }
}

pub fn run<'tcx>(tcx: TyCtxt<'tcx>, krate: &ast::Crate) -> AstFacts {
    let mut v = V {
        tcx,
        templates: vec![],
        field_attrs: vec![],
        fn_attrs: vec![],
        loops: vec![],
        item_stack: vec![],
        _m: std::marker::PhantomData,
    };
    visit::walk_crate(&mut v, krate);
    AstFacts {
        templates: json::arr(v.templates),
        field_attrs: json::arr(v.field_attrs),
        fn_attrs: json::arr(v.fn_attrs),
        loops: json::arr(v.loops),
    }
}
