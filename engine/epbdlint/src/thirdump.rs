// Typed THIR dump of every body owner, with the type, ADT and impl tables.

use crate::astpass::{loc, mac_chain};
use crate::json::{self, esc, Obj};
use rustc_hir::def::DefKind;
use rustc_hir::def_id::{DefId, LocalDefId};
use rustc_middle::thir::{self, ExprId, ExprKind, Pat, PatKind, StmtKind, Thir};
use rustc_middle::ty::{self, GenericArgsRef, Instance, Ty, TyCtxt, TypeVisitableExt, TypingEnv};
use rustc_span::Span;
use std::collections::HashMap;

pub struct ThirFacts {
    pub bodies: String,
    pub types: String,
    pub adts: String,
    pub impls: String,
}

struct Cx<'tcx> {
    tcx: TyCtxt<'tcx>,
    ty_ids: HashMap<Ty<'tcx>, usize>,
    ty_json: Vec<String>,
}

fn def_key(tcx: TyCtxt<'_>, did: DefId) -> String {
    format!(
        "{}{}",
        tcx.crate_name(did.krate),
        tcx.def_path(did).to_string_no_crate_verbose()
    )
}

impl<'tcx> Cx<'tcx> {
    fn gargs(&mut self, args: GenericArgsRef<'tcx>) -> String {
        let mut v = vec![];
        for a in args.iter() {
            if let Some(t) = a.as_type() {
                v.push(self.ty(t).to_string());
            } else if let Some(c) = a.as_const() {
                v.push(esc(&format!("const:{}", c)));
            }
            // lifetimes are dropped
        }
        json::arr(v)
    }

    fn fn_info(&mut self, o: &mut Obj, did: DefId, args: GenericArgsRef<'tcx>) {
        let tcx = self.tcx;
        o.str("path", &tcx.def_path_str(did));
        o.str("def", &def_key(tcx, did));
        o.boolean("local", did.is_local());
        o.str("name", tcx.item_name(did).as_str());
        let ga = self.gargs(args);
        o.raw("args", &ga);
        o.str("defkind", &format!("{:?}", tcx.def_kind(did)));
        // trait method?
        if let Some(assoc) = tcx.opt_associated_item(did) {
            let container = assoc.container_id(tcx);
            match tcx.def_kind(container) {
                DefKind::Trait => {
                    o.str("trait", &tcx.def_path_str(container));
                }
                DefKind::Impl { .. } => {
                    o.str("impl_of", &def_key(tcx, container));
                    let self_ty = tcx.type_of(container).instantiate_identity().skip_norm_wip();
                    let st = self.ty(self_ty);
                    o.num("impl_self_ty", st);
                }
                _ => {}
            }
        }
        // resolution for concrete instantiations
        if !args.has_param() && !args.has_infer() && !args.has_escaping_bound_vars() {
            let erased = tcx.erase_and_anonymize_regions(args);
            if let Ok(Some(inst)) =
                Instance::try_resolve(tcx, TypingEnv::fully_monomorphized(), did, erased)
            {
                let rd = inst.def_id();
                let mut r = Obj::new();
                r.str("path", &tcx.def_path_str(rd));
                r.str("def", &def_key(tcx, rd));
                r.boolean("local", rd.is_local());
                r.str("inst", &format!("{:?}", inst.def).chars().take(24).collect::<String>());
                let rga = self.gargs(inst.args);
                r.raw("args", &rga);
                o.raw("resolved", &r.finish());
            }
        }
    }

    fn ty(&mut self, t: Ty<'tcx>) -> usize {
        if let Some(&i) = self.ty_ids.get(&t) {
            return i;
        }
        let id = self.ty_json.len();
        self.ty_ids.insert(t, id);
        self.ty_json.push(String::new()); // reserve (recursive types refer back)
        let tcx = self.tcx;
        let mut o = Obj::new();
        o.str("s", &format!("{}", t));
        match t.kind() {
            ty::Bool | ty::Char | ty::Int(_) | ty::Uint(_) | ty::Float(_) | ty::Str | ty::Never => {
                o.str("k", "prim");
                o.str("n", &format!("{}", t));
            }
            ty::Adt(def, args) => {
                o.str("k", "adt");
                o.str("path", &tcx.def_path_str(def.did()));
                o.str("def", &def_key(tcx, def.did()));
                o.boolean("local", def.did().is_local());
                o.str(
                    "adt_kind",
                    if def.is_enum() {
                        "enum"
                    } else if def.is_union() {
                        "union"
                    } else {
                        "struct"
                    },
                );
                let ga = self.gargs(args);
                o.raw("args", &ga);
            }
            ty::Ref(_, inner, m) => {
                o.str("k", "ref");
                o.boolean("mut", m.is_mut());
                let i = self.ty(*inner);
                o.num("t", i);
            }
            ty::RawPtr(inner, m) => {
                o.str("k", "ptr");
                o.boolean("mut", m.is_mut());
                let i = self.ty(*inner);
                o.num("t", i);
            }
            ty::Slice(inner) => {
                o.str("k", "slice");
                let i = self.ty(*inner);
                o.num("t", i);
            }
            ty::Array(inner, len) => {
                o.str("k", "array");
                let i = self.ty(*inner);
                o.num("t", i);
                o.str("len", &format!("{}", len));
            }
            ty::Tuple(list) => {
                o.str("k", "tuple");
                let v: Vec<String> = list.iter().map(|x| self.ty(x).to_string()).collect();
                o.raw("ts", &json::arr(v));
            }
            ty::FnDef(did, args) => {
                o.str("k", "fndef");
                self.fn_info(&mut o, *did, args);
            }
            ty::Closure(did, _args) => {
                o.str("k", "closure");
                o.str("def", &def_key(tcx, *did));
            }
            ty::Param(p) => {
                o.str("k", "param");
                o.str("n", p.name.as_str());
                o.num("idx", p.index);
            }
            ty::FnPtr(..) => {
                o.str("k", "fnptr");
            }
            ty::Dynamic(..) => {
                o.str("k", "dyn");
            }
            ty::Alias(..) => {
                o.str("k", "alias");
            }
            _ => {
                o.str("k", "other");
            }
        }
        self.ty_json[id] = o.finish();
        id
    }

    fn pat(&mut self, p: &Pat<'tcx>) -> String {
        let tcx = self.tcx;
        let mut o = Obj::new();
        let t = self.ty(p.ty);
        o.num("ty", t);
        match &p.kind {
            PatKind::Wild => {
                o.str("k", "wild");
            }
            PatKind::Binding { name, mode, var, ty, subpattern, is_primary, .. } => {
                o.str("k", "bind");
                o.str("name", name.as_str());
                o.str("var", &format!("{:?}", var.0));
                o.str("mode", &format!("{:?}", mode));
                let vt = self.ty(*ty);
                o.num("var_ty", vt);
                o.boolean("primary", *is_primary);
                match subpattern {
                    Some(s) => {
                        let sp = self.pat(s);
                        o.raw("sub", &sp);
                    }
                    None => {
                        o.raw("sub", "null");
                    }
                }
            }
            PatKind::Variant { adt_def, variant_index, subpatterns, .. } => {
                o.str("k", "variant");
                o.str("adt", &tcx.def_path_str(adt_def.did()));
                o.num("vidx", variant_index.index());
                o.str("vname", adt_def.variant(*variant_index).name.as_str());
                let subs: Vec<String> = subpatterns
                    .iter()
                    .map(|fp| {
                        let mut so = Obj::new();
                        so.num("f", fp.field.index());
                        let sp = self.pat(&fp.pattern);
                        so.raw("p", &sp);
                        so.finish()
                    })
                    .collect();
                o.raw("subs", &json::arr(subs));
            }
            PatKind::Leaf { subpatterns } => {
                o.str("k", "leaf");
                let subs: Vec<String> = subpatterns
                    .iter()
                    .map(|fp| {
                        let mut so = Obj::new();
                        so.num("f", fp.field.index());
                        let sp = self.pat(&fp.pattern);
                        so.raw("p", &sp);
                        so.finish()
                    })
                    .collect();
                o.raw("subs", &json::arr(subs));
            }
            PatKind::Deref { subpattern, .. } => {
                o.str("k", "deref");
                let sp = self.pat(subpattern);
                o.raw("sub", &sp);
            }
            PatKind::Constant { value } => {
                o.str("k", "const");
                o.str("v", &format!("{}", value));
            }
            PatKind::Range(r) => {
                o.str("k", "range");
                o.str("v", &format!("{:?}", r));
            }
            PatKind::Slice { prefix, slice, suffix } | PatKind::Array { prefix, slice, suffix } => {
                o.str("k", "slice");
                let pre: Vec<String> = prefix.iter().map(|x| self.pat(x)).collect();
                let suf: Vec<String> = suffix.iter().map(|x| self.pat(x)).collect();
                o.raw("prefix", &json::arr(pre));
                o.raw("suffix", &json::arr(suf));
                match slice {
                    Some(s) => {
                        let sp = self.pat(s);
                        o.raw("slice", &sp);
                    }
                    None => {
                        o.raw("slice", "null");
                    }
                }
            }
            PatKind::Or { pats } => {
                o.str("k", "or");
                let ps: Vec<String> = pats.iter().map(|x| self.pat(x)).collect();
                o.raw("pats", &json::arr(ps));
            }
            PatKind::Never => {
                o.str("k", "never");
            }
            other => {
                o.str("k", "other");
                o.str("s", &format!("{:?}", other).chars().take(60).collect::<String>());
            }
        }
        o.finish()
    }

    fn span_fields(&self, o: &mut Obj, sp: Span) {
        o.str("loc", &loc(self.tcx, sp));
        if sp.from_expansion() {
            let chain = mac_chain(sp);
            o.raw("mac", &json::arr(chain.iter().map(|s| esc(s))));
            o.str("cs", &loc(self.tcx, sp.source_callsite()));
        }
    }

    fn expr(&mut self, thir: &Thir<'tcx>, id: ExprId) -> String {
        let tcx = self.tcx;
        let e = &thir.exprs[id];
        let mut o = Obj::new();
        let t = self.ty(e.ty);
        o.num("ty", t);
        self.span_fields(&mut o, e.span);
        let ix = |x: &ExprId| x.index();
        match &e.kind {
            ExprKind::Scope { value, .. } => {
                o.str("k", "scope");
                o.num("v", ix(value));
            }
            ExprKind::If { cond, then, else_opt, .. } => {
                o.str("k", "if");
                o.num("cond", ix(cond));
                o.num("then", ix(then));
                o.opt_num("else", else_opt.as_ref().map(ix));
            }
            ExprKind::Call { ty: fty, fun, args, from_hir_call, fn_span } => {
                o.str("k", "call");
                let ft = self.ty(*fty);
                o.num("fty", ft);
                o.num("fun", ix(fun));
                o.raw("args", &json::nums(args.iter().map(ix)));
                o.boolean("from_hir_call", *from_hir_call);
                o.str("fn_loc", &loc(tcx, *fn_span));
            }
            ExprKind::Deref { arg } => {
                o.str("k", "deref");
                o.num("arg", ix(arg));
            }
            ExprKind::Binary { op, lhs, rhs } => {
                o.str("k", "binary");
                o.str("op", &format!("{:?}", op));
                o.num("lhs", ix(lhs));
                o.num("rhs", ix(rhs));
            }
            ExprKind::LogicalOp { op, lhs, rhs } => {
                o.str("k", "logical");
                o.str("op", &format!("{:?}", op));
                o.num("lhs", ix(lhs));
                o.num("rhs", ix(rhs));
            }
            ExprKind::Unary { op, arg } => {
                o.str("k", "unary");
                o.str("op", &format!("{:?}", op));
                o.num("arg", ix(arg));
            }
            ExprKind::Cast { source } => {
                o.str("k", "cast");
                o.num("src", ix(source));
            }
            ExprKind::Use { source } => {
                o.str("k", "use");
                o.num("src", ix(source));
            }
            ExprKind::NeverToAny { source } => {
                o.str("k", "never_to_any");
                o.num("src", ix(source));
            }
            ExprKind::PointerCoercion { cast, source, .. } => {
                o.str("k", "pcoerce");
                o.str("cast", &format!("{:?}", cast));
                o.num("src", ix(source));
            }
            ExprKind::Loop { body } => {
                o.str("k", "loop");
                o.num("body", ix(body));
            }
            ExprKind::Let { expr, pat } => {
                o.str("k", "let");
                o.num("e", ix(expr));
                let p = self.pat(pat);
                o.raw("pat", &p);
            }
            ExprKind::Match { scrutinee, arms, match_source, .. } => {
                o.str("k", "match");
                o.num("scrut", ix(scrutinee));
                o.raw("arms", &json::nums(arms.iter().map(|a| a.index())));
                o.str("src", &format!("{:?}", match_source));
            }
            ExprKind::Block { block } => {
                o.str("k", "block");
                o.num("b", block.index());
            }
            ExprKind::Assign { lhs, rhs } => {
                o.str("k", "assign");
                o.num("lhs", ix(lhs));
                o.num("rhs", ix(rhs));
            }
            ExprKind::AssignOp { op, lhs, rhs } => {
                o.str("k", "assignop");
                o.str("op", &format!("{:?}", op));
                o.num("lhs", ix(lhs));
                o.num("rhs", ix(rhs));
            }
            ExprKind::Field { lhs, variant_index, name } => {
                o.str("k", "field");
                o.num("lhs", ix(lhs));
                o.num("vidx", variant_index.index());
                o.num("f", name.index());
                let lty = thir.exprs[*lhs].ty;
                if let ty::Adt(def, _) = lty.kind() {
                    let v = def.variant(*variant_index);
                    if let Some(fd) = v.fields.get(*name) {
                        o.str("name", fd.name.as_str());
                    }
                }
            }
            ExprKind::Index { lhs, index } => {
                o.str("k", "index");
                o.num("lhs", ix(lhs));
                o.num("index", ix(index));
            }
            ExprKind::VarRef { id } => {
                o.str("k", "var");
                o.str("var", &format!("{:?}", id.0));
                o.str("name", tcx.hir_name(id.0).as_str());
            }
            ExprKind::UpvarRef { var_hir_id, .. } => {
                o.str("k", "upvar");
                o.str("var", &format!("{:?}", var_hir_id.0));
                o.str("name", tcx.hir_name(var_hir_id.0).as_str());
            }
            ExprKind::Borrow { borrow_kind, arg } => {
                o.str("k", "borrow");
                o.str("bk", &format!("{:?}", borrow_kind));
                o.num("arg", ix(arg));
            }
            ExprKind::RawBorrow { arg, .. } => {
                o.str("k", "rawborrow");
                o.num("arg", ix(arg));
            }
            ExprKind::Break { value, .. } => {
                o.str("k", "break");
                o.opt_num("v", value.as_ref().map(ix));
            }
            ExprKind::Continue { .. } => {
                o.str("k", "continue");
            }
            ExprKind::Return { value } => {
                o.str("k", "return");
                o.opt_num("v", value.as_ref().map(ix));
            }
            ExprKind::Repeat { value, count } => {
                o.str("k", "repeat");
                o.num("v", ix(value));
                o.str("count", &format!("{}", count));
            }
            ExprKind::Array { fields } => {
                o.str("k", "array");
                o.raw("fields", &json::nums(fields.iter().map(ix)));
            }
            ExprKind::Tuple { fields } => {
                o.str("k", "tuple");
                o.raw("fields", &json::nums(fields.iter().map(ix)));
            }
            ExprKind::Adt(a) => {
                o.str("k", "adt");
                o.str("path", &tcx.def_path_str(a.adt_def.did()));
                o.num("vidx", a.variant_index.index());
                let v = a.adt_def.variant(a.variant_index);
                o.str("vname", v.name.as_str());
                let fs: Vec<String> = a
                    .fields
                    .iter()
                    .map(|f| {
                        let mut fo = Obj::new();
                        fo.num("f", f.name.index());
                        if let Some(fd) = v.fields.get(f.name) {
                            fo.str("name", fd.name.as_str());
                        }
                        fo.num("e", f.expr.index());
                        fo.finish()
                    })
                    .collect();
                o.raw("fields", &json::arr(fs));
                match &a.base {
                    thir::AdtExprBase::None => {
                        o.raw("base", "null");
                    }
                    thir::AdtExprBase::Base(fru) => {
                        o.num("base", fru.base.index());
                    }
                    _ => {
                        o.str("base", "default_fields");
                    }
                }
            }
            ExprKind::Closure(c) => {
                o.str("k", "closure");
                o.str("def", &def_key(tcx, c.closure_id.to_def_id()));
                o.raw("upvars", &json::nums(c.upvars.iter().map(ix)));
            }
            ExprKind::Literal { lit, neg } => {
                o.str("k", "lit");
                o.boolean("neg", *neg);
                use rustc_ast::LitKind;
                match &lit.node {
                    LitKind::Str(s, _) => {
                        o.str("lk", "str");
                        o.str("v", s.as_str());
                    }
                    LitKind::ByteStr(b, _) => {
                        o.str("lk", "bytestr");
                        o.str("v", &format!("{:?}", b.as_byte_str()));
                    }
                    LitKind::Byte(b) => {
                        o.str("lk", "byte");
                        o.num("v", *b);
                    }
                    LitKind::Char(c) => {
                        o.str("lk", "char");
                        o.str("v", &c.to_string());
                    }
                    LitKind::Int(n, _) => {
                        o.str("lk", "int");
                        o.str("v", &format!("{}", n.get()));
                    }
                    LitKind::Float(s, _) => {
                        o.str("lk", "float");
                        o.str("v", s.as_str());
                    }
                    LitKind::Bool(b) => {
                        o.str("lk", "bool");
                        o.boolean("v", *b);
                    }
                    other => {
                        o.str("lk", "other");
                        o.str("v", &format!("{:?}", other));
                    }
                }
            }
            ExprKind::NonHirLiteral { lit, .. } => {
                o.str("k", "lit");
                o.boolean("neg", false);
                o.str("lk", "scalar");
                o.str("v", &format!("{:?}", lit));
            }
            ExprKind::ZstLiteral { .. } => {
                o.str("k", "zst");
            }
            ExprKind::NamedConst { def_id, args, .. } => {
                o.str("k", "const");
                o.str("path", &tcx.def_path_str(*def_id));
                o.str("def", &def_key(tcx, *def_id));
                o.boolean("local", def_id.is_local());
                let ga = self.gargs(args);
                o.raw("args", &ga);
            }
            ExprKind::StaticRef { def_id, .. } => {
                o.str("k", "static");
                o.str("path", &tcx.def_path_str(*def_id));
                o.str("def", &def_key(tcx, *def_id));
                o.boolean("local", def_id.is_local());
            }
            ExprKind::ConstParam { .. } => {
                o.str("k", "constparam");
            }
            other => {
                o.str("k", "other");
                o.str("s", &format!("{:?}", other).chars().take(40).collect::<String>());
            }
        }
        o.finish()
    }

    fn body(&mut self, ldid: LocalDefId) -> Option<String> {
        let tcx = self.tcx;
        let did = ldid.to_def_id();
        let Ok((thir, root)) = tcx.thir_body(ldid) else {
            return None;
        };
        let thir = thir.borrow();
        let mut o = Obj::new();
        o.str("def", &def_key(tcx, did));
        o.str("path", &tcx.def_path_str(did));
        let dk = tcx.def_kind(did);
        o.str("defkind", &format!("{:?}", dk));
        let sp = tcx.def_span(did);
        self.span_fields(&mut o, sp);
        if matches!(dk, DefKind::Fn | DefKind::AssocFn) {
            o.str("vis", &format!("{:?}", tcx.visibility(did)));
        }
        if matches!(dk, DefKind::Closure) {
            o.str("parent", &def_key(tcx, tcx.typeck_root_def_id(did)));
        }
        // generic parameters (own + parents), type params only
        {
            let mut names = vec![];
            let mut g = Some(tcx.generics_of(did));
            let mut all = vec![];
            while let Some(gen) = g {
                all.push(gen);
                g = gen.parent.map(|p| tcx.generics_of(p));
            }
            for gen in all.iter().rev() {
                for p in gen.own_params.iter() {
                    if let ty::GenericParamDefKind::Type { .. } = p.kind {
                        names.push(format!("{{\"n\":{},\"idx\":{}}}", esc(p.name.as_str()), p.index));
                    }
                }
            }
            o.raw("generics", &json::arr(names));
        }
        // container (impl / trait)
        if let Some(assoc) = tcx.opt_associated_item(did) {
            let container = assoc.container_id(tcx);
            match tcx.def_kind(container) {
                DefKind::Trait => {
                    o.str("in_trait", &tcx.def_path_str(container));
                }
                DefKind::Impl { .. } => {
                    o.str("impl", &def_key(tcx, container));
                }
                _ => {}
            }
        }
        let params: Vec<String> = thir
            .params
            .iter()
            .map(|p| {
                let mut po = Obj::new();
                let t = self.ty(p.ty);
                po.num("ty", t);
                match &p.pat {
                    Some(pat) => {
                        let ps = self.pat(pat);
                        po.raw("pat", &ps);
                    }
                    None => {
                        po.raw("pat", "null");
                    }
                }
                po.finish()
            })
            .collect();
        o.raw("params", &json::arr(params));
        o.num("root", root.index());
        let exprs: Vec<String> = thir.exprs.indices().map(|i| self.expr(&thir, i)).collect();
        o.raw("exprs", &json::arr(exprs));
        let stmts: Vec<String> = thir
            .stmts
            .iter()
            .map(|s| {
                let mut so = Obj::new();
                match &s.kind {
                    StmtKind::Expr { expr, .. } => {
                        so.str("k", "expr");
                        so.num("e", expr.index());
                    }
                    StmtKind::Let { pattern, initializer, else_block, span, .. } => {
                        so.str("k", "let");
                        let ps = self.pat(pattern);
                        so.raw("pat", &ps);
                        so.opt_num("init", initializer.as_ref().map(|x| x.index()));
                        so.opt_num("else", else_block.as_ref().map(|x| x.index()));
                        so.str("loc", &loc(tcx, *span));
                    }
                }
                so.finish()
            })
            .collect();
        o.raw("stmts", &json::arr(stmts));
        let blocks: Vec<String> = thir
            .blocks
            .iter()
            .map(|b| {
                let mut bo = Obj::new();
                bo.raw("stmts", &json::nums(b.stmts.iter().map(|s| s.index())));
                bo.opt_num("expr", b.expr.as_ref().map(|x| x.index()));
                bo.boolean("unsafe", !matches!(b.safety_mode, thir::BlockSafety::Safe));
                bo.finish()
            })
            .collect();
        o.raw("blocks", &json::arr(blocks));
        let arms: Vec<String> = thir
            .arms
            .iter()
            .map(|a| {
                let mut ao = Obj::new();
                let ps = self.pat(&a.pattern);
                ao.raw("pat", &ps);
                ao.opt_num("guard", a.guard.as_ref().map(|x| x.index()));
                ao.num("body", a.body.index());
                ao.str("loc", &loc(tcx, a.span));
                ao.finish()
            })
            .collect();
        o.raw("arms", &json::arr(arms));
        Some(o.finish())
    }
}

pub fn run<'tcx>(tcx: TyCtxt<'tcx>) -> ThirFacts {
    let mut cx = Cx { tcx, ty_ids: HashMap::new(), ty_json: vec![] };
    let mut bodies = vec![];
    for ldid in tcx.hir_body_owners() {
        if let Some(b) = cx.body(ldid) {
            bodies.push(b);
        }
    }
    // ADTs, impls, traits
    let mut adts = vec![];
    let mut impls = vec![];
    for ldid in tcx.hir_crate_items(()).definitions() {
        let did = ldid.to_def_id();
        match tcx.def_kind(did) {
            DefKind::Struct | DefKind::Enum | DefKind::Union => {
                let def = tcx.adt_def(did);
                let mut o = Obj::new();
                o.str("path", &tcx.def_path_str(did));
                o.str("def", &def_key(tcx, did));
                o.str("kind", if def.is_enum() { "enum" } else { "struct" });
                o.str("loc", &loc(tcx, tcx.def_span(did)));
                o.str("vis", &format!("{:?}", tcx.visibility(did)));
                let vs: Vec<String> = def
                    .variants()
                    .iter_enumerated()
                    .map(|(vi, v)| {
                        let mut vo = Obj::new();
                        vo.str("name", v.name.as_str());
                        vo.num("idx", vi.index());
                        let fs: Vec<String> = v
                            .fields
                            .iter()
                            .map(|f| {
                                let mut fo = Obj::new();
                                fo.str("name", f.name.as_str());
                                let fty = tcx.type_of(f.did).instantiate_identity().skip_norm_wip();
                                let t = cx.ty(fty);
                                fo.num("ty", t);
                                fo.str("vis", &format!("{:?}", f.vis));
                                fo.finish()
                            })
                            .collect();
                        vo.raw("fields", &json::arr(fs));
                        vo.finish()
                    })
                    .collect();
                o.raw("variants", &json::arr(vs));
                adts.push(o.finish());
            }
            DefKind::Impl { .. } => {
                let mut o = Obj::new();
                o.str("def", &def_key(tcx, did));
                o.str("loc", &loc(tcx, tcx.def_span(did)));
                o.boolean("from_expansion", tcx.def_span(did).from_expansion());
                let self_ty = tcx.type_of(did).instantiate_identity().skip_norm_wip();
                let st = cx.ty(self_ty);
                o.num("self_ty", st);
                o.str("self_ty_s", &format!("{}", self_ty));
                if let Some(tr) = tcx.impl_opt_trait_ref(did) {
                    let tr = tr.instantiate_identity().skip_norm_wip();
                    o.str("trait", &tcx.def_path_str(tr.def_id));
                    let ga = cx.gargs(tr.args);
                    o.raw("trait_args", &ga);
                } else {
                    o.raw("trait", "null");
                }
                let items: Vec<String> = tcx
                    .associated_items(did)
                    .in_definition_order()
                    .map(|it| {
                        let mut io = Obj::new();
                        io.str("name", it.name().as_str());
                        io.str("def", &def_key(tcx, it.def_id));
                        io.str("kind", &format!("{:?}", it.kind).chars().take(12).collect::<String>());
                        io.finish()
                    })
                    .collect();
                o.raw("items", &json::arr(items));
                impls.push(o.finish());
            }
            DefKind::Trait => {
                let mut o = Obj::new();
                o.str("def", &def_key(tcx, did));
                o.str("loc", &loc(tcx, tcx.def_span(did)));
                o.boolean("from_expansion", false);
                o.num("self_ty", -1);
                o.str("self_ty_s", "Self");
                o.str("trait_def", &tcx.def_path_str(did));
                o.raw("trait", "null");
                let items: Vec<String> = tcx
                    .associated_items(did)
                    .in_definition_order()
                    .map(|it| {
                        let mut io = Obj::new();
                        io.str("name", it.name().as_str());
                        io.str("def", &def_key(tcx, it.def_id));
                        io.str("kind", &format!("{:?}", it.kind).chars().take(12).collect::<String>());
                        io.boolean("has_default", it.defaultness(tcx).has_value());
                        io.finish()
                    })
                    .collect();
                o.raw("items", &json::arr(items));
                impls.push(o.finish());
            }
            _ => {}
        }
    }
    ThirFacts {
        bodies: json::arr(bodies),
        types: json::arr(cx.ty_json),
        adts: json::arr(adts),
        impls: json::arr(impls),
    }
}
