"""C16 No input makes the library panic or the program crash or hang (DESIGN §5/C16).

K1 every panic-capable site reachable from the public entry points is enumerated by the value-graph
   evaluator as a `panic` effect with its gate (path condition);
K2 each gate must be refuted: propositionally (variant exclusivity, contradicting guards), by
   integer bounds (index below a dominating length check), by length classes (vector helpers), or
   it must match a row of the frozen table rules/c16_table.json (reviewed by hand, with a reason);
K3 exit discipline of the binary (constant documented codes, stderr message before a non-zero exit);
K4 termination: no loop/while, acyclic call graph, and no unwinder-symbol override in an unwinding build.
"""
import json
import os

from epbd import term as tm
from epbd.sym import _conjuncts, _filters_of
from .common import loc_of, AnchorMissing, short_loc, VERIF

DOC_EXIT = {0, 64, 65, 73, 74}
# library entry points the binary calls: analysed as entries of their own, summarised inside `main`
MAIN_SUMMARIES = ["balance::energy_performance", "cte::wfactors_from_str", "cte::wfactors_from_loc",
                  "cte::incorpora_demanda_renovable_acs_nrb", "wfactors::Factors::strip",
                  "<components::Components as std::str::FromStr>::from_str",
                  "<types::balance::energy_performance::EnergyPerformance as asplain::AsCtePlain>::to_plain",
                  "<types::balance::energy_performance::EnergyPerformance as asctexml::AsCteXml>::to_xml"]


# ---------------------------------------------------------------------------------- bounds
def max_of(t):
    if t.op == "num":
        return t.a[0]
    if t.op == "add":
        a, b = max_of(t.a[0]), max_of(t.a[1])
        return None if a is None or b is None else a + b
    if t.op == "ite":
        a, b = max_of(t.a[1]), max_of(t.a[2])
        return None if a is None or b is None else max(a, b)
    return None


def structural_min_len(L):
    """Lower bound of a length term from the shape of the collection alone."""
    if L.op == "num":
        return L.a[0]
    if L.op != "len":
        return 0
    v = L.a[0]
    # split / splitn always yield at least one piece
    t = v
    for _ in range(6):
        if t.op == "collect" and isinstance(t.a[0], tm.T):
            t = t.a[0]
        elif t.op == "map":
            t = t.a[0]
        else:
            break
    if t.op in ("split", "splitn"):
        return 1
    if t.op == "str":
        return len(t.a[0].encode("utf-8"))
    return 0


def min_len(L, facts):
    """Lower bound of the length term L under a list of fact terms (conjunction)."""
    lo = structural_min_len(L)
    for f in facts:
        if f.op == "not" and f.a[0].op == "lt" and f.a[0].a[0] is L and f.a[0].a[1].op == "num":
            lo = max(lo, f.a[0].a[1].a[0])
        elif f.op == "le" and f.a[1] is L and f.a[0].op == "num":
            lo = max(lo, f.a[0].a[0])
        elif f.op == "lt" and f.a[1] is L and f.a[0].op == "num":
            lo = max(lo, f.a[0].a[0] + 1)
        elif f.op == "eq" and L in f.a:
            o = f.a[0] if f.a[1] is L else f.a[1]
            if o.op == "num":
                lo = max(lo, o.a[0])
        elif f.op == "starts_with" and L.op == "len" and f.a[1].op == "str":
            s = f.a[1].a[0]
            subject = L.a[0]
            same = f.a[0] is subject
            # a prefix without whitespace survives trimming
            through_trim = subject.op == "trim" and subject.a[0] is f.a[0] and not any(ch.isspace() for ch in s)
            if (same or through_trim) and all(ord(ch) < 128 for ch in s):
                lo = max(lo, len(s))
    return lo


def case_facts(facts):
    """Expand small disjunctions among the facts into alternative fact lists."""
    alts = [[]]
    for f in facts:
        if f.op == "or" and len(f.a) <= 4 and len(alts) <= 8:
            alts = [a + _conjuncts(x) for a in alts for x in f.a]
        else:
            alts = [a + [f] for a in alts]
    return alts


_MODELS = [None]


def refute_bounds(gate):
    cond = gate[-1]
    facts = list(gate[:-1])
    if cond.op == "le" and cond.a[1].op == "position_val":
        it = cond.a[1].a[0]
        if it.op == "iter":
            from epbd.models import Models
            if _MODELS[0] is None:
                _MODELS[0] = Models()
            if _MODELS[0].len_of(None, it.a[0]) is cond.a[0]:
                return "index returned by position() on the same vector"
    if cond.op == "le":          # len <= idx   (index out of bounds)
        L, I = cond.a
        need = max_of(I)
        if need is None:
            return None
        if all(min_len(L, fs) > need for fs in case_facts(facts)):
            return "index %s below the dominating length bound" % need
    if cond.op == "lt":          # len < start  (range start out of bounds)
        L, K = cond.a
        need = max_of(K)
        if need is None:
            return None
        if all(min_len(L, fs) >= need for fs in case_facts(facts)):
            return "range start %s within the dominating length bound" % need
    return None


# ---------------------------------------------------------------------------------- length classes
ENERGY_RECORDS = ("EUsed", "EProd", "EAux", "EOut")


def vclass(v, depth=0):
    """Length class of a vector term: 'N' for vectors as long as the component value lists
    (equal by the parser's check), ('c', n) for literals, None when unknown."""
    if depth > 30:
        return None
    op = v.op
    if op == "collect" and isinstance(v.a[0], tm.T):
        # a comprehension over 0..n is as long as n
        base = v.a[0]
        while base.op == "map":
            base = base.a[0]
        if base.op == "iter" and base.a[0].op == "adt" and base.a[0].a[0] == "Range" and len(base.a[0].a) == 4 \
                and base.a[0].a[2] is tm.ZERO:
            return lclass(base.a[0].a[3], depth + 1)
    if op == "sym":
        from epbd import folds
        leaf = folds.STATE_LEAVES.get(v)
        if leaf is None:
            return None
        if v in _ASSUMED:
            return _ASSUMED[v]
        for cand in ("N",):
            # co-inductive over the family of loop-carried vectors that refer to each other (the values of one
            # finite map): assume the class for all of them, then check init / next of every member reached
            family = {v: leaf}
            todo = [leaf]
            while todo:
                lf = todo.pop()
                if lf.next is None:
                    continue
                for x in tm.free_syms(lf.next):
                    l2 = folds.STATE_LEAVES.get(x)
                    if l2 is not None and x not in family and l2.kind == "val" and l2.sibling is not None and len(family) < 40:
                        family[x] = l2
                        todo.append(l2)
            added = [x for x in family if x not in _ASSUMED]
            for x in added:
                _ASSUMED[x] = cand
            try:
                ok = True
                for x, lf in family.items():
                    if x is not v and not _is_vector_leaf(lf):
                        continue
                    ok_init = lf.init is tm.GARBAGE or (lf.sibling is not None and lf.sibling.init is tm.FALSE) \
                        or vclass(lf.init, depth + 1) == cand or (lf.init.op == "seq" and len(lf.init.a) == 0)
                    ok_next = lf.next is None or lf.next is x or vclass_next(lf.next, x, cand, depth + 1)
                    if not (ok_init and ok_next):
                        ok = False
                        break
            finally:
                for x in added:
                    del _ASSUMED[x]
            if ok:
                return cand
        return None
    if op == "proj" and v.a[3] == "values":
        base = v.a[0]
        # values of an energy component record (payload of an Energy variant)
        if base.op == "proj" and base.a[1] in (0, 1, 2, 3) and base.a[3] in ("0", None):
            return "N"
        if base.op in ("sym", "bv"):
            return None
        return "N" if "Energy" in tm.show(base, 2) or base.op == "proj" else None
    if op == "vsumover":
        x = tm.fresh("c")
        return leaves_class(tm.apply_lam(v.a[1], [x]), depth)
    if op == "rep":
        return lclass(v.a[1], depth + 1)
    if op in ("vop",):
        a, b = vclass(v.a[1], depth + 1), vclass(v.a[2], depth + 1)
        return a if a == b else None
    if op == "vneg":
        return vclass(v.a[0], depth + 1)
    if op == "ite":
        if v.a[1] is tm.GARBAGE or v.a[1].op in ("bottom", "undef_cell"):
            return vclass(v.a[2], depth + 1)
        if v.a[2] is tm.GARBAGE or v.a[2].op in ("bottom", "undef_cell"):
            return vclass(v.a[1], depth + 1)
        a, b = vclass(v.a[1], depth + 1), vclass(v.a[2], depth + 1)
        if a == b:
            return a
        return None
    if op == "collect":
        return iclass(v.a[0], depth + 1)
    if op == "seq":
        return ("c", len(v.a))
    if op == "fold":
        from .c10 import pointwise_sum_fold
        if pointwise_sum_fold(v):
            # veclistsum: as long as the longest summand (one element [0] for an empty list): class of the summands
            # when the list is known non-empty on this path
            src = v.a[0]
            lst = src.a[0] if src.op == "iter" else src
            ne = nonempty_lists()
            known = any(t.id in ne for t in tm.subterms(lst)) or any(
                g.op == "not" and g.a[0].op == "is_empty" and any(x is g.a[0].a[0] or x.id == g.a[0].a[0].id for x in tm.subterms(lst))
                for g in _CTX["gate"])
            if known:
                return iclass_elems(src, depth + 1)
        return None
    return None


def iclass_elems(it, depth):
    """Common length class of the vectors an iterator yields."""
    if it.op == "iter":
        base = it.a[0]
        if base.op == "collect":
            return iclass_elems(base.a[0], depth + 1)
        return None
    if it.op == "map" and it.a[1].op == "lam":
        x = tm.fresh("c")
        return leaves_class(tm.apply_lam(it.a[1], [x]), depth + 1)
    if it.op in ("filter", "cloned", "copied"):
        return iclass_elems(it.a[0], depth + 1)
    return None


_ASSUMED = {}
_CTX = {"ev": None, "gate": (), "nonempty": None}


def nonempty_lists():
    """Terms known to be non-empty lists on the current path: the source collection of every enclosing loop
    (being inside an iteration means an element exists), and anything the gate says is not empty."""
    if _CTX["nonempty"] is not None:
        return _CTX["nonempty"]
    out = set()
    ev = _CTX["ev"]
    for g in _CTX["gate"]:
        if g.op == "in_loop" and ev is not None:
            info = ev.loops_info.get(g.a[0])
            if info is not None:
                for t in tm.subterms(info["iter"]):
                    out.add(t.id)
        if g.op == "not" and g.a[0].op == "is_empty":
            for t in tm.subterms(g.a[0].a[0]):
                out.add(t.id)
        if g.op == "lt" and g.a[0] is tm.ZERO and g.a[1].op == "len":
            out.add(g.a[1].a[0].id)
        if g.op == "any":
            for t in tm.subterms(g.a[0]):
                out.add(t.id)
    _CTX["nonempty"] = out
    return out


def _is_vector_leaf(lf):
    """Loop-carried values that are vectors of steps (entries of a map of vectors), not flags or scalars."""
    n = lf.next
    if n is None:
        return False
    return any(t.op in ("vop", "rep", "vsumover") or (t.op == "proj" and t.a[3] == "values") for t in tm.subterms(n))


def vclass_next(n, s, cand, depth):
    """every non-state case of the next-state term has class cand"""
    if n is s:
        return True
    if n.op == "ite":
        return vclass_next(n.a[1], s, cand, depth + 1) and vclass_next(n.a[2], s, cand, depth + 1)
    return vclass(n, depth + 1) == cand


def leaves_class(body, depth):
    if body.op == "ite":
        a, b = leaves_class(body.a[1], depth + 1), leaves_class(body.a[2], depth + 1)
        return a if a == b else None
    return vclass(body, depth + 1)


def iclass(it, depth):
    if it.op == "iter":
        return vclass(it.a[0], depth + 1)
    if it.op == "map":
        return iclass(it.a[0], depth + 1)
    if it.op == "zip":
        a, b = iclass(it.a[0], depth + 1), iclass(it.a[1], depth + 1)
        return a if a == b else None
    return None


def lclass(t, depth=0):
    if t.op == "num":
        return ("c", t.a[0])
    if t.op == "len":
        return vclass(t.a[0], depth + 1)
    if t.op == "ite":
        c = t.a[0]
        # `0 < len(L)` / `not is_empty(L)` with L known non-empty on this path
        if c.op == "lt" and c.a[0] is tm.ZERO and c.a[1].op == "len" and c.a[1].a[0].id in nonempty_lists():
            return lclass(t.a[1], depth + 1)
        a, b = lclass(t.a[1], depth + 1), lclass(t.a[2], depth + 1)
        return a if a == b else None
    if t.op == "max_of" and t.a[0].op == "map":
        # the longest of a list of vectors: their common class
        x = tm.fresh("c")
        return lclass(tm.apply_lam(t.a[0].a[1], [x]), depth + 1) if t.a[0].a[1].op == "lam" else None
    return None


def refute_lengths(gate):
    cond = gate[-1]
    if cond.op == "not" and cond.a[0].op == "eq":
        a, b = cond.a[0].a
        ca, cb = lclass(a), lclass(b)
        if ca is not None and ca == cb:
            return "both operands have length class %s" % (ca,)
    return None


def refute_range_index(ev, gate):
    """v[i] inside `for i in 0..n`: i < n by construction, so the index is in bounds when len(v) is n or has the
    length class of n (all per-step vectors of a parsed building are equally long, A6 / K1)."""
    cond = gate[-1]
    if cond.op != "le":
        return None
    L, I = cond.a
    # the same inside a closure mapped over 0..n: the path condition carries `i < n`
    for g in gate[:-1]:
        if g.op == "lt" and g.a[0] is I:
            n = g.a[1]
            if L is n:
                return "index below the length of this vector (element of 0..len)"
            cl, cn = lclass(L), lclass(n)
            if cl is not None and cl == cn:
                return "index is an element of 0..n and the vector has the length class of n (%s)" % (cl,)
    for g in gate:
        if g.op != "in_loop":
            continue
        info = ev.loops_info.get(g.a[0])
        if info is None or info.get("elem") is not I:
            continue
        it = info["iter"]
        if not (it.op == "iter" and it.a[0].op == "adt" and it.a[0].a[0] == "Range" and len(it.a[0].a) == 4
                and it.a[0].a[2] is tm.ZERO):
            continue
        n = it.a[0].a[3]
        if L is n:
            return "index is the element of a loop over 0..len of this vector"
        cl, cn = lclass(L), lclass(n)
        if cl is not None and cl == cn:
            return "index is the element of a loop over 0..n and the vector has the length class of n (%s)" % (cl,)
    return None


# ---------------------------------------------------------------------------------- non-emptiness
def refute_nonempty(ev, gate):
    """cr_list[0] style: len(collect(filter(it, F))) <= 0 refuted by a fact any(it', G) with G => F."""
    cond = gate[-1]
    if cond.op != "le" or max_of(cond.a[1]) != 0 or cond.a[0].op != "len":
        return None
    v = cond.a[0].a[0]
    # the same list built by pushing (a clone of) every selected element into an empty vector
    if v.op == "extend" and v.a[0].op == "seq" and not v.a[0].a and isinstance(v.a[1], tm.T):
        it = v.a[1]
        if it.op == "map" and isinstance(it.a[1], tm.T) and it.a[1].op == "lam":
            y = tm.fresh("idm")
            if tm.apply_lam(it.a[1], [y]) is y:
                it = it.a[0]
        v = tm.mk("collect", it)
    if v.op != "collect" or v.a[0].op != "filter":
        return None
    base = v.a[0]
    fl = []
    while base.op == "filter":
        fl.append(base.a[1])
        base = base.a[0]
    x = tm.fresh("w")
    F = tm.and_(*[tm.apply_lam(l, [x]) for l in fl])
    for f in gate[:-1]:
        if f.op == "any" and f.a[0] is base:
            G = tm.apply_lam(f.a[1], [x])
            ev._budget = 3000
            if ev.sat([G, tm.not_(F)], {}) is False:
                return "a witness element exists (the key was derived from the same collection)"
    return None


def defined_cli_args(ctx):
    """Argument names defined through clap::Arg::with_name(<literal>) in the binary."""
    names = set()
    prog = ctx.bin
    for b in prog.bodies.values():
        ex = b["exprs"]
        for e in ex:
            if e["k"] == "call":
                t = prog.types[e["fty"]]
                if t["k"] == "fndef" and t["path"].startswith("clap::Arg") and t["name"] == "with_name":
                    a = ex[e["args"][0]]
                    n = 0
                    while a["k"] in ("scope", "use", "borrow", "deref") and n < 10:
                        a = ex[a.get("v", a.get("src", a.get("arg")))]
                        n += 1
                    if a["k"] == "lit" and a["lk"] == "str":
                        names.add(a["v"])
    return names


CLI_ARGS = [None]
CLI_NVALUES = [None]


def cli_number_of_values(ctx):
    """{argument name: n} for arguments defined with .number_of_values(<literal n>) in their builder chain:
    clap then yields exactly n values for that option or rejects the command line (A5)."""
    out = {}
    prog = ctx.bin

    def unwrap(ex, a):
        n = 0
        while a["k"] in ("scope", "use", "borrow", "deref") and n < 10:
            a = ex[a.get("v", a.get("src", a.get("arg")))]
            n += 1
        return a
    for b in prog.bodies.values():
        ex = b["exprs"]
        for e in ex:
            if e["k"] != "call":
                continue
            t = prog.types[e["fty"]]
            if not (t["k"] == "fndef" and t["path"].startswith("clap::Arg") and t["name"] == "number_of_values"):
                continue
            lit = unwrap(ex, ex[e["args"][1]])
            if lit["k"] != "lit":
                continue
            try:
                nval = int(str(lit["v"]))
            except ValueError:
                continue
            cur = unwrap(ex, ex[e["args"][0]])
            for _ in range(40):
                if cur["k"] != "call":
                    break
                tt = prog.types[cur["fty"]]
                if tt.get("name") == "with_name":
                    nm = unwrap(ex, ex[cur["args"][0]])
                    if nm["k"] == "lit" and nm.get("lk") == "str":
                        out[nm["v"]] = nval
                    break
                if not cur["args"]:
                    break
                cur = unwrap(ex, ex[cur["args"][0]])
    return out


def refute_cli_values(gate):
    """index k into the collected values of an option defined with number_of_values(n), k < n."""
    cond = gate[-1]
    if cond.op != "le" or cond.a[0].op != "len":
        return None
    k = max_of(cond.a[1])
    v = cond.a[0].a[0]
    if k is None or CLI_NVALUES[0] is None:
        return None
    names = set()
    t = v
    # the list is a collect / map / push-in-order of the option's values: same length as cli_values(name)
    for x in tm.subterms(t):
        if x.op == "cli_values" and x.a[0].op == "str":
            names.add(x.a[0].a[0])
    if len(names) != 1:
        return None
    base = t
    while base.op in ("collect", "map", "iter", "cloned", "copied") and isinstance(base.a[0], tm.T):
        base = base.a[0]
    if base.op != "cli_values":
        return None
    n = CLI_NVALUES[0].get(list(names)[0])
    if n is not None and k < n:
        return "the option is defined with number_of_values(%d): clap yields exactly %d values or rejects the command line (A5)" % (n, n)
    return None


def refute(ev, eff):
    gate = list(eff.gate)
    for g in gate:
        if g is tm.FALSE:
            return "dead path"
        if g.op == "cli_present" and g.a[0].op == "str" and CLI_ARGS[0] is not None \
                and g.a[0].a[0] not in CLI_ARGS[0]:
            return "guard tests an argument name that is not defined: never present (A5)"
    ev._budget = 4000
    saved = ev.pc
    ev.pc = []
    try:
        real = [g for g in gate if g.op != "in_loop"]
        if ev.sat(real, {}) is False:
            return "guards contradict (propositional / variant exclusivity)"
        r = refute_bounds(real)
        if r:
            return r
        _CTX["ev"], _CTX["gate"], _CTX["nonempty"] = ev, gate, None
        r = refute_lengths(real)
        if r:
            return r
        r = refute_nonempty(ev, real)
        if r:
            return r
        r = refute_range_index(ev, gate)
        if r:
            return r
        r = refute_cli_values(real)
        if r:
            return r
    finally:
        ev.pc = saved
    return None


# ---------------------------------------------------------------------------------- entries
def entry_points(ctx):
    lib, binp = ctx.lib, ctx.bin
    out = []

    def add(kind, name, body):
        out.append((kind, name, body))
    add("lib", "Components::from_str", ctx.find_impl_method(lib, "FromStr", "Components", "from_str"))
    add("lib", "Factors::from_str", ctx.find_impl_method(lib, "FromStr", "Factors", "from_str"))
    for n in ("cte::wfactors_from_str", "cte::wfactors_from_loc", "Factors::normalize", "Factors::strip",
              "Factors::set_user_wfactors", "energy_performance", "cte::incorpora_demanda_renovable_acs_nrb"):
        add("lib", n, ctx.find_public_fn(lib, n))
    add("lib", "EnergyPerformance::to_plain", ctx.find_impl_method(lib, "AsCtePlain", "EnergyPerformance", "to_plain"))
    add("lib", "EnergyPerformance::to_xml", ctx.find_impl_method(lib, "AsCteXml", "EnergyPerformance", "to_xml"))
    for ty in ("Components", "Factors"):
        add("lib", "%s::fmt" % ty, ctx.find_impl_method(lib, "Display", ty, "fmt"))
    add("bin", "main", ctx.find_public_fn(binp, "main"))
    return out


HELPERS = ("vecops::",)


def site_of(e):
    """(function the site belongs to, location used to order sites inside it): a panic inside a
    vector helper is attributed to the helper's call site in its caller."""
    fn = e.stack[-1] if e.stack else "?"
    loc = e.loc
    i = len(e.stack) - 1
    while i > 0 and any(e.stack[i].startswith(h) or ("::" + h) in e.stack[i] for h in HELPERS):
        loc = e.sites[i] if i < len(e.sites) and e.sites[i] else loc
        i -= 1
        fn = e.stack[i]
    callee = e.stack[-1] if e.stack and e.stack[-1] != fn else ""
    return fn, callee, loc


def stable_keys(effects, entry):
    """entry/function/[helper]/kind/ordinal of the site inside that function in source order
    (no line numbers in the key)."""
    groups = {}
    for e in effects:
        fn, callee, loc = site_of(e)
        groups.setdefault((fn, callee, str(e.info)), []).append((e, loc))
    out = []
    for (fn, callee, kind), lst in groups.items():
        locs = sorted(set(_lockey(l) for _e, l in lst))
        for e, l in lst:
            name = fn + ("/" + callee.split("::")[-1] if callee else "")
            out.append(("C16/panic/%s/%s/%s/%d" % (entry, name, kind, locs.index(_lockey(l))), e))
    return out


def _lockey(loc):
    try:
        p = loc.split(":")
        return (p[0], int(p[1]), int(p[2]))
    except Exception:
        return (str(loc), 0, 0)


def load_table():
    p = os.path.join(VERIF, "rules", "c16_table.json")
    if not os.path.exists(p):
        return {}
    with open(p) as fh:
        return json.load(fh)


def run(ctx, rep):
    rep.rule = ("effects of kind panic/exit/abort enumerated by the evaluator over every public entry point; each "
                "panic gate refuted automatically (propositional, integer bounds, length classes, witness) or matched "
                "to a reviewed row of rules/c16_table.json; exit codes constant and documented with a stderr message; "
                "no loop/while, acyclic call graph, no unwinder override under unwinding")
    rep.explanation = ("A new unwrap/index/assert on an input-reachable path, a weakened length guard, a new exit code "
                       "or a loop is reported for every input at once; the tests only feed well-formed files.")
    rep.assumptions = ["A3 front end", "A4 std panic table (Option/Result unwrap, Index on Vec/str/HashMap, assert*, unreachable)",
                       "A5 clap/serde behave as documented", "A6 Components/Factors come from the crate's parsers",
                       "A7 resource exhaustion and closed stdio outside the claim"]
    table = load_table()
    used_rows = set()
    CLI_ARGS[0] = defined_cli_args(ctx)
    CLI_NVALUES[0] = cli_number_of_values(ctx)
    if len(CLI_ARGS[0]) < 10:
        rep.violated("C16/floor/cli-args", "the binary's argument definitions are visible", why=str(sorted(CLI_ARGS[0])))
    total = auto = tabled = 0
    methods = {}
    exits = []
    for kind, name, body in entry_points(ctx):
        try:
            ev, r, _a = ctx.eval_entry(kind, body, opaque=(MAIN_SUMMARIES if kind == "bin" else None))
        except Exception as ex:
            rep.underivable("C16/eval/%s" % name, "entry point %s is analysable" % name, construct=loc_of(body),
                            why="%s: %s" % (type(ex).__name__, ex))
            continue
        if ev.unsupported:
            for k, loc in ev.unsupported[:5]:
                rep.violated("C16/K4/construct/%s/%s" % (name, k), "no unbounded loop / unsupported construct on a reachable path",
                             construct=short_loc(str(loc)), why="construct '%s' (explicit loop or unknown expression)" % k)
        pan = [e for e in ev.effects if e.kind in ("panic", "abort", "nonterminating?")]
        for key, eff in stable_keys(pan, name):
            total += 1
            why = refute(ev, eff)
            if why:
                auto += 1
                methods[why.split(" ")[0]] = methods.get(why.split(" ")[0], 0) + 1
                rep.discharged(key, "panic site unreachable: %s" % why, construct=short_loc(str(eff.loc)),
                               derivation="gate: %s" % " && ".join(tm.show(g, 2)[:80] for g in eff.gate[-3:]))
                continue
            row = table.get(key)
            if row is not None:
                tabled += 1
                used_rows.add(key)
                rep.discharged(key, "panic site justified by the reviewed table: %s" % row["reason"],
                               construct=short_loc(str(eff.loc)), nontrivial=False)
                continue
            rep.violated(key, "no input reaches this %s site" % eff.info, construct=short_loc(str(eff.loc)),
                         why="path condition is satisfiable as far as the rules can tell: %s (call path: %s)"
                             % (" && ".join(tm.show(g, 3)[:120] for g in eff.gate[-4:]), " > ".join(eff.stack[-3:])))
        if kind == "bin":
            exits = [(i, e) for i, e in enumerate(ev.effects) if e.kind == "exit"]
            check_exits(rep, ev, exits, body)
        if name == "Components::from_str":
            check_equal_length_gate(rep, r, body)
    # K4 termination
    loops = [l for l in ctx.lib.facts["loops"] + ctx.bin.facts["loops"] if l["kind"] in ("loop", "while")
             and not l["from_expansion"]]
    if loops:
        for l in loops:
            rep.violated("C16/K4/loop/%s" % l["item"], "no unbounded loop in the crate", construct=short_loc(l["loc"]),
                         why="explicit `%s`" % l["kind"])
    else:
        nfor = len([l for l in ctx.lib.facts["loops"] + ctx.bin.facts["loops"] if l["kind"] == "for"])
        rep.discharged("C16/K4/loops", "only `for` loops over finite collections (%d); no loop/while" % nfor)
    cyc = call_cycles(ctx)
    if cyc:
        rep.violated("C16/K4/recursion/%s" % cyc[0], "crate-local call graph is acyclic", why="cycle through %s" % cyc[:4])
    else:
        rep.discharged("C16/K4/recursion", "crate-local call graph is acyclic")
    unwinder = [f for f in ctx.bin.facts["fn_attrs"] + ctx.lib.facts["fn_attrs"]
                if any("no_mangle" in a for a in f["attrs"]) and "_Unwind_" in f["item"]]
    strat = ctx.bin.facts.get("panic_strategy")
    if unwinder and strat == "Unwind":
        for f in unwinder:
            rep.violated("C16/K4/unwinder-override/%s" % f["item"].split("::")[-1],
                         "a panic cannot turn into a hang", construct=short_loc(f["loc"]),
                         why="#[no_mangle] %s replaces the unwinder entry point in a profile with panic=unwind: "
                             "any panic then never terminates" % f["item"].split("::")[-1])
    else:
        rep.discharged("C16/K4/unwinder-override", "no unwinder symbol is overridden in an unwinding build (%s)" % strat)
    stale = [k for k in table if k not in used_rows]
    rep.analysed = {"panic_sites": total, "refuted_automatically": auto, "justified_by_table": tabled,
                    "refutation_methods": methods, "exit_sites": len(exits), "stale_table_rows": len(stale)}
    rep.floor("panic-sites", total, 120)   # a refactoring that removes helper asserts lowers the count; 120 still rules out an analysis that saw nothing
    rep.floor("exit-sites", len(exits), 14)


def check_equal_length_gate(rep, r, body):
    """The length class N of component vectors rests on this: parsing returns Err unless every
    energy component has the same number of steps."""
    from epbd import api
    found = False
    for gates, leaf in api.result_cases(r):
        is_err = (leaf.op == "adt" and leaf.a[0] == "Result" and leaf.a[1] == 1) or leaf.op == "loop_pick"
        if not is_err:
            continue
        for g in gates:
            for t in tm.subterms(g):
                if t.op == "any" and t.a[1].op == "lam":
                    body_ = t.a[1].a[2]
                    ops = set(x.op for x in tm.subterms(body_))
                    if "len" in ops and ("eq" in ops) and any(
                            x.op == "proj" and x.a[3] == "values" for x in tm.subterms(t)):
                        found = True
    key = "C16/K2/equal-length-check"
    if found:
        rep.discharged(key, "the components parser rejects sets whose value vectors differ in length "
                            "(basis of length class N for every vector helper)")
    else:
        rep.violated(key, "parsing fails unless all energy components have the same number of steps",
                     construct=loc_of(body),
                     why="no Err return gated by a length comparison over the parsed components was found: "
                         "the length assertions of the vector helpers are then reachable")


def check_exits(rep, ev, exits, body):
    for i, e in exits:
        code = e.info
        key = "C16/K3/exit/%s" % exit_id(ev, e, i)
        if code.op != "num" or code.a[0] not in DOC_EXIT:
            rep.violated(key, "exit codes are the documented constants 0, 64, 65, 73, 74", construct=short_loc(str(e.loc)),
                         why="exit(%s)" % tm.show(code, 3))
            continue
        if code.a[0] == 0:
            rep.discharged(key, "exit(0)", nontrivial=False)
            continue
        # nearest preceding effect on the same path must be a stderr print
        ok = False
        for j in range(i - 1, -1, -1):
            p = ev.effects[j]
            if p.kind == "print" and tuple(p.gate) == tuple(e.gate):
                ok = p.info[0] == "stderr"
                break
            if p.kind == "print" and len(p.gate) <= len(e.gate) and tuple(e.gate[:len(p.gate)]) == tuple(p.gate):
                ok = p.info[0] == "stderr"
                break
        if ok:
            rep.discharged(key, "exit(%s) after a message on stderr" % code.a[0], construct=short_loc(str(e.loc)))
        else:
            rep.violated(key, "a deliberate error exit reports the error on stderr first", construct=short_loc(str(e.loc)),
                         why="no stderr message precedes exit(%s) on this path" % code.a[0])


def exit_id(ev, e, i):
    fn = e.stack[-1] if e.stack else "?"
    same = [x for x in ev.effects if x.kind == "exit" and (x.stack[-1] if x.stack else "?") == fn]
    locs = sorted(set(_lockey(x.loc) for x in same))
    return "%s/%d" % (fn, locs.index(_lockey(e.loc)))


def call_cycles(ctx):
    graph = {}
    for prog in (ctx.lib, ctx.bin):
        for key, b in prog.bodies.items():
            if not prog.is_hand_written(b):
                continue
            owner = b.get("parent", key)
            outs = graph.setdefault(owner, set())
            for ex in b["exprs"]:
                if ex["k"] == "call":
                    t = prog.types[ex["fty"]]
                    if t["k"] == "fndef":
                        r = t.get("resolved") or t
                        if r["def"].startswith("cteepbd::"):
                            outs.add(r["def"])
    color = {}
    cyc = []

    def dfs(u, stack):
        color[u] = 1
        for v in graph.get(u, ()):
            if color.get(v) == 1:
                cyc.append(v)
            elif v not in color:
                dfs(v, stack + [v])
        color[u] = 2
    for u in list(graph):
        if u not in color:
            dfs(u, [u])
    return cyc
