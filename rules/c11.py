"""C11 Results scale linearly with energy and inversely with area (DESIGN §5/C11):
degree (dimension) inference over the value graph of energy_performance."""
from fractions import Fraction

from epbd import term as tm, alg
from . import epmodel, epdeg
from .epmodel import get, leaves, pstr
from .common import loc_of

E1, Z0 = epdeg.E1, epdeg.Z0
M2 = (Fraction(1), Fraction(-1))


def expected_bc(path):
    """Documented degree of a BalanceCarrier leaf."""
    if path[0] == "f_match":
        return Z0
    return E1


def run(ctx, rep):
    rep.rule = ("degree inference (energy scale, area) over polynomial normal forms of every output leaf: "
                "all monomials of a leaf have the documented degree; comparisons are homogeneous unless they "
                "are one of the thresholds the property names; load-matching argument is a pure ratio")
    rep.explanation = ("Units-style inference run forward from the inputs: component values have degree (1,0), "
                       "factors/k_exp (0,0), arearef (0,1).  An added constant, an absolute threshold or an output "
                       "of the wrong degree breaks homogeneity for every input, which no pair of runs is needed to see.")
    rep.assumptions = ["A1 inputs zero or >= 0.01 (keeps inputs on one side of the admitted 1e-3 thresholds)",
                       "A2 real arithmetic", "A3/A4 front end and std models"]
    n = 0
    nguards = 0
    for lm in (False, True):
        e, A, D = epdeg.analyse(ctx, lm)
        where = loc_of(e.body)
        for (ci, cname, pres, bc) in e.carriers():
            if pres is tm.FALSE:
                continue
            tag = "%s/lm=%d" % (cname, lm)
            for p, t, gates in leaves(bc, ()):
                if p[0] == "carrier":
                    continue
                n += 1
                key = "C11/deg/%s/%s" % (pstr(p), tag)
                try:
                    poly = A.pw(t)
                except alg.NotScalar as ex:
                    rep.underivable(key, "leaf is numeric", construct=where, why=str(ex))
                    continue
                before = len(D.issues)
                d = D.poly(poly)
                want = expected_bc(p)
                if d == "zero" or d == want:
                    if len(D.issues) == before:
                        rep.discharged(key, "%s has degree %s" % (pstr(p), fmt(want)), nontrivial=(d != "zero"))
                        continue
                why = "; ".join("%s: %s" % (k, v) for k, v in D.issues[before:]) or \
                      "degree %s, documented %s" % (fmt(d), fmt(want))
                rep.violated(key, "%s scales with degree %s" % (pstr(p), fmt(want)), construct=where, why=why[:700])
        for name, want in (("balance", E1), ("balance_m2", M2)):
            for p, t, gates in leaves(e.field(name), (name,)):
                if p[1] == "needs" or gates:
                    continue      # map entries: degree follows from C04 (m2 = total*k_area, total = Σ twins)
                n += 1
                key = "C11/deg/%s/lm=%d" % (pstr(p), lm)
                before = len(D.issues)
                d = D.poly(A.scalar(t))
                if (d == "zero" or d == want) and len(D.issues) == before:
                    rep.discharged(key, "%s has degree %s" % (pstr(p), fmt(want)), nontrivial=(d != "zero"))
                else:
                    why = "; ".join("%s: %s" % (k, v) for k, v in D.issues[before:]) or \
                          "degree %s, documented %s" % (fmt(d), fmt(want))
                    rep.violated(key, "%s scales with degree %s" % (pstr(p), fmt(want)), construct=where, why=why[:700])
        for name in ("rer", "rer_nrb", "rer_onst"):
            n += 1
            key = "C11/deg/%s/lm=%d" % (name, lm)
            before = len(D.issues)
            d = D.poly(A.scalar(e.field(name)))
            if (d == "zero" or d == Z0) and len(D.issues) == before:
                rep.discharged(key, "%s is scale free" % name)
            else:
                why = "; ".join("%s: %s" % (k, v) for k, v in D.issues[before:]) or "degree %s" % fmt(d)
                rep.violated(key, "%s is unchanged by scaling energies or area" % name, construct=where, why=why[:700])
        nguards += len(D.guards)
        admitted = [g for g in D.guards if not g[2]]
        rep.analysed["guards/lm=%d" % lm] = {"comparisons": len(D.guards),
                                             "admitted_absolute_thresholds": len(admitted)}
    # "multiplying the reference area by c divides the per-m2 results by c" for the command-line program too: the area
    # the results are computed with is the one given with -a when given (C19/Q1, re-stated)
    from . import c19 as _c19
    from .common import Report as _Report
    sub19 = _Report("C19")
    _c19.run(ctx, sub19)
    q1 = [o for o in sub19.obligations if o.key == "C19/Q1/arearef"]
    if not q1:
        rep.violated("C11/cli/arearef/anchor", "the selection of the reference area in main is analysable", why="no C19/Q1/arearef obligation")
    for o in q1:
        if o.status == "discharged":
            rep.discharged("C11/cli/arearef", "the area used by the program is the option value when given: " + o.clause, nontrivial=False)
        else:
            rep.violated("C11/cli/arearef", "changing the area given with -a changes the area the per-m2 results are divided by",
                         construct=o.construct, why=o.why)
    # the DHW renewable fraction is part of the results: its independence of the area and its scale-free guards are
    # decided by the C15 pack (W1 area / W2 degree), re-stated here
    from . import c15
    from .common import Report
    sub15 = Report("C15")
    c15.run(ctx, sub15)
    w = [o for o in sub15.obligations if o.key.startswith(("C15/W1/arearef", "C15/W2/"))]
    if len(w) < 4:
        rep.violated("C11/dhw/anchor", "the DHW indicator is analysable", why="%d C15 obligations" % len(w))
    for o in w:
        k = "C11/dhw/" + "/".join(o.key.split("/")[1:])
        if o.status == "discharged":
            rep.discharged(k, "DHW renewable fraction: " + o.clause, nontrivial=False)
        else:
            rep.violated(k, "the DHW renewable fraction does not change with the energy scale or the reference area", construct=o.construct, why=o.why)
    nnorm = normalisation_guards(ctx, rep)
    rep.analysed["normalisation_comparisons"] = nnorm
    rep.floor("normalisation-comparisons", nnorm, 3)
    rep.analysed["leaves"] = n
    rep.floor("degree-leaves", n, 2 * 12 * 40)
    rep.floor("guards-seen", nguards, 10)


def fmt(d):
    if d is None or d == "zero":
        return str(d)
    return "(%s,%s)" % (d[0], d[1])


def normalisation_guards(ctx, rep):
    """Comparisons made while normalising the components (completion of ambient / solar production,
    auxiliary shares): an energy may only be compared with zero or with another energy."""
    lib = ctx.lib
    nb = ctx.find_public_fn(lib, "Components::normalize")
    ev, r, _a = ctx.eval_entry("lib", nb)
    where = loc_of(nb)
    roots = [r]
    for info in ev.loops_info.values():
        roots.extend(info["next"])

    def energy_valued(t):
        if t.op == "len":
            return False
        for x in tm.subterms(t):
            if x.op == "len":
                continue
            if (x.op == "proj" and x.a[3] == "values") or x.op in ("sumover", "vsumover", "vop"):
                return True
        return False
    seen = set()
    bad = {}
    n = 0
    for root in roots:
        for t in tm.subterms(root):
            if t.op not in ("lt", "le", "eq") or t.id in seen or len(t.a) != 2:
                continue
            seen.add(t.id)
            a, b = t.a
            for x, y in ((a, b), (b, a)):
                if energy_valued(x) and not energy_valued(y):
                    n += 1
                    if y.op == "num" and y.a[0] != 0:
                        bad.setdefault(str(y.a[0]), t)
                    elif y.op not in ("num",) and not energy_valued(y) and y.op != "bv":
                        pass
    for k, t in sorted(bad.items()):
        rep.violated("C11/normalize/absolute-threshold/%s" % k, "normalisation compares energies only with zero or with energies (scale free)",
                     construct=where, why="an energy is compared with the literal %s: %s" % (k, tm.show(t, 3)[:300]))
    if not bad:
        rep.discharged("C11/normalize/guards", "every comparison of an energy made while normalising components is with zero or another energy",
                       derivation="%d comparisons" % n)
    return n
