"""C07 Preparing weighting factors: complete, respectful of user values, idempotent (DESIGN §5/C07).

Factors::normalize / set_user_wfactors are interpreted abstractly over the finite key space
(12 carriers x 3 sources x 3 destinations x 2 steps): for every key the final presence and value
are terms over the presence/value symbols of an arbitrary initial set."""
from epbd import term as tm, api
from . import keyspace
from .keyspace import key_of_names as K, key_name
from .common import loc_of, AnchorMissing

FORCED = [("EAMBIENTE", "INSITU"), ("EAMBIENTE", "RED"), ("TERMOSOLAR", "INSITU"), ("TERMOSOLAR", "RED"),
          ("ELECTRICIDAD", "INSITU")]
EXPORTING = [("ELECTRICIDAD", "INSITU"), ("EAMBIENTE", "INSITU"), ("TERMOSOLAR", "INSITU")]
ONE = {"ren": 1, "nren": 0, "co2": 0}


def ok_case(r):
    oks = [(g, l) for g, l in api.result_cases(r) if l.op == "adt" and l.a[0] == "Result" and l.a[1] == 0]
    if len(oks) != 1:
        raise AnchorMissing("exactly one Ok(...) case")
    return oks[0]


def scenario(A, present):
    sub = {}
    for k in A.keys:
        sub[A.p0[k]] = tm.boolean(k in present)
    return sub


def equal_under(ev, assumptions, a, b, unsat):
    """a = b wherever the assumptions hold: every pair of differing ite-leaves lies on contradictory paths."""
    ca = api.result_cases(a)
    cb = api.result_cases(b)
    if len(ca) * len(cb) > 400:
        return False
    for ga, la in ca:
        for gb, lb in cb:
            if la is lb:
                continue
            if not unsat(ev, list(assumptions) + list(ga) + list(gb)):
                return False
    return True


def run(ctx, rep):
    rep.rule = ("abstract interpretation of the factor list over the 216-key space: F1 a key the user supplies keeps its "
                "value unless it is one of the five forced keys (then (1,0,0)); F2 missing export keys default to the on-site "
                "supply factor (step A) / the grid supply factor (step B), RED1/RED2 to the defaults; F3 pipelines are "
                "normalize(set_user(parse|lookup)); F4 completeness on scenarios; F5 rejection; F6 idempotence on scenarios and, by composing normalize with itself in the key space, for every accepted file")
    rep.explanation = ("Which lines a user file contains is an exponential family; the abstraction keeps one presence symbol "
                       "and three value symbols per key, so user-value preservation and default sources are decided for "
                       "all files at once (files repeating a key are outside: first match).")
    rep.assumptions = ["a factor file defines each key at most once", "A3/A4"]
    lib = ctx.lib
    body = ctx.find_public_fn(lib, "Factors::normalize")
    where = loc_of(body)
    ev, r, args = ctx.eval_entry("lib", body)
    selfv, defaults = args[0], args[1]
    base = tm.proj(selfv, 0, 1, "wdata")
    gates, leaf = ok_case(r)
    out = leaf.a[2]
    wd = tm.proj(out, 0, 1, "wdata")
    A = keyspace.Abs(base)
    m = A.of(wd)
    for p in A.problems[:5]:
        rep.underivable("C07/model/%s" % abs(hash(p)) , "the factor list is built by push / update-first / retain only", construct=where, why=p)
    meta_ok = tm.proj(out, 0, 0, "wmeta") is tm.proj(selfv, 0, 0, "wmeta")
    if meta_ok:
        rep.discharged("C07/F1/wmeta", "metadata is not touched", nontrivial=False)
    else:
        rep.violated("C07/F1/wmeta", "preparing factors does not change the metadata", construct=where)
    forced = set()
    for c, s in FORCED:
        forced.add(K(c, s, "SUMINISTRO", "A"))
    n1 = 0
    for k in A.keys:
        p, v = m[k]
        n1 += 1
        key = "C07/F1/%s" % key_name(k)
        sub = {A.p0[k]: tm.TRUE}
        pres = tm.subst(p, sub)
        vals = dict((f, tm.subst(v[f], sub)) for f in keyspace.VAL_FIELDS)
        if k in forced:
            ok = all(vals[f].op == "num" and vals[f].a[0] == ONE[f] for f in ONE)
            clause = "%s is fixed by the method to (1, 0, 0)" % key_name(k)
        else:
            ok = all(vals[f] is A.v0[k][f] for f in keyspace.VAL_FIELDS)
            clause = "a supplied factor %s keeps its value" % key_name(k)
        if ok and pres is tm.TRUE:
            rep.discharged(key, clause, nontrivial=(k in forced))
        else:
            rep.violated(key, clause, construct=where,
                         why="when the set contains it, the prepared value is (%s) and presence %s"
                             % (", ".join(tm.show(vals[f], 3)[:60] for f in keyspace.VAL_FIELDS), tm.show(pres, 2)[:60]))
    rep.floor("keys", n1, 216)
    # F2 defaults
    for c, s in EXPORTING:
        src = K(c, s, "SUMINISTRO", "A")
        grid = K(c, "RED", "SUMINISTRO", "A")
        for dest in ("A_RED", "A_NEPB"):
            for step, origin in (("A", src), ("B", grid)):
                k = K(c, s, dest, step)
                key = "C07/F2/%s" % key_name(k)
                sub = {A.p0[k]: tm.FALSE, A.p0[origin]: tm.TRUE, A.p0[grid]: tm.TRUE}
                p, v = m[k]
                po, vo = m[origin]
                pres = tm.subst(p, sub)
                ok = pres is tm.TRUE and all(tm.subst(v[f], sub) is tm.subst(vo[f], sub) for f in keyspace.VAL_FIELDS)
                clause = "missing %s defaults to %s" % (key_name(k), key_name(origin))
                if ok:
                    rep.discharged(key, clause)
                else:
                    rep.violated(key, "step A export factors default to the on-site supply factor, step B to the grid supply factor",
                                 construct=where, why="%s: present=%s value=(%s), source value=(%s)" % (
                                     key_name(k), tm.show(pres, 2)[:40],
                                     ", ".join(tm.show(tm.subst(v[f], sub), 3)[:50] for f in keyspace.VAL_FIELDS),
                                     ", ".join(tm.show(tm.subst(vo[f], sub), 3)[:50] for f in keyspace.VAL_FIELDS)))
    for i, red in enumerate(("RED1", "RED2")):
        k = K(red, "RED", "SUMINISTRO", "A")
        p, v = m[k]
        sub = {A.p0[k]: tm.FALSE}
        dv = tm.proj(defaults, 0, i, "red%d" % (i + 1))
        ok = tm.subst(p, sub) is tm.TRUE and all(
            tm.subst(v[f], sub) is tm.getf(dv, "RenNrenCo2", f) for f in keyspace.VAL_FIELDS)
        key = "C07/F2/%s-default" % red
        if ok:
            rep.discharged(key, "%s absent from the set gets the built-in default passed by the caller" % red)
        else:
            rep.violated(key, "%s: file value, else the built-in default" % red, construct=where,
                         why=tm.show(tm.subst(v["nren"], sub), 4)[:200])
    # F5 / F4 / F6 on scenarios
    cases = [(tm.and_(*[A.cond(g) for g in gs]), lf) for gs, lf in api.result_cases(r)]

    def outcome(present):
        sub = scenario(A, present)
        hits = [lf for c, lf in cases if tm.subst(c, sub) is tm.TRUE]
        und = [c for c, lf in cases if tm.subst(c, sub) not in (tm.TRUE, tm.FALSE)]
        if len(hits) != 1 or und:
            return None
        lf = hits[0]
        return "ok" if (lf.op == "adt" and lf.a[1] == 0) else "err"
    fuels = ["BIOCARBURANTE", "BIOMASA", "BIOMASADENSIFICADA", "CARBON", "GASNATURAL", "GASOLEO", "GLP"]
    el = K("ELECTRICIDAD", "RED", "SUMINISTRO", "A")
    scen = [
        ("electricity only", {el}, "ok"),
        ("carrier without grid factor", {el, K("GASNATURAL", "INSITU", "SUMINISTRO", "A")}, "err"),
        ("no electricity grid factor", {K("GASNATURAL", "RED", "SUMINISTRO", "A")}, "err"),
        ("all fuels", set([el] + [K(f, "RED", "SUMINISTRO", "A") for f in fuels]), "ok"),
        ("export factors only for electricity", {el, K("ELECTRICIDAD", "INSITU", "A_RED", "A")}, "ok"),
    ]
    for name, present, want in scen:
        got = outcome(present)
        key = "C07/F5/%s" % name.replace(" ", "-")
        if got == want:
            rep.discharged(key, "a set with %s is %s" % (name, "accepted" if want == "ok" else "rejected with an error"))
        else:
            rep.violated(key, "an unusable set (a carrier without grid supply factor) is rejected, a usable one accepted",
                         construct=where, why="scenario '%s' gives %s" % (name, got))
    needed_always = [("EAMBIENTE", "RED"), ("EAMBIENTE", "INSITU"), ("TERMOSOLAR", "RED"), ("TERMOSOLAR", "INSITU"),
                     ("RED1", "RED"), ("RED2", "RED"), ("ELECTRICIDAD", "INSITU")]
    for name, present, want in scen:
        if want != "ok":
            continue
        sub = scenario(A, present)
        missing = []
        need = [K(c, s, "SUMINISTRO", "A") for c, s in needed_always]
        for c, s in EXPORTING:
            for d in ("A_RED", "A_NEPB"):
                for st in ("A", "B"):
                    need.append(K(c, s, d, st))
        need += list(present)
        for k in need:
            if tm.subst(m[k][0], sub) is not tm.TRUE:
                missing.append(key_name(k))
        key = "C07/F4/%s" % name.replace(" ", "-")
        if not missing:
            rep.discharged(key, "prepared set (%s) contains every factor a building over its carriers can look up" % name,
                           derivation="%d keys checked" % len(need))
        else:
            rep.violated(key, "every factor needed by any building over the set's carriers is present after preparation",
                         construct=where, why="missing %s" % missing[:6])
        # F6: prepare the prepared set again
        sub2 = {}
        for k in A.keys:
            sub2[A.p0[k]] = tm.subst(m[k][0], sub)
            for f in keyspace.VAL_FIELDS:
                sub2[A.v0[k][f]] = tm.subst(m[k][1][f], sub)
        same = True
        bad = None
        for k in A.keys:
            p1 = tm.subst(m[k][0], sub)
            p2 = tm.subst(m[k][0], sub2)
            if p1 is not p2:
                same, bad = False, key_name(k)
                break
            if p1 is tm.TRUE:
                for f in keyspace.VAL_FIELDS:
                    if tm.subst(m[k][1][f], sub) is not tm.subst(m[k][1][f], sub2):
                        same, bad = False, key_name(k) + "." + f
        key = "C07/F6/%s" % name.replace(" ", "-")
        if same:
            rep.discharged(key, "preparing the prepared set (%s) again changes nothing" % name)
        else:
            rep.violated(key, "preparing an already prepared set changes nothing", construct=where, why="differs at %s" % bad)
    # F6 for every file at once: normalize evaluated on its own Ok result (composition in the key space);
    # wherever the first pass accepts, the second accepts too and every key has the same presence and value
    from .c04 import unsat
    ev_b, r_b, _ab = ctx.eval_entry("lib", body, args=[out, defaults])
    oks_b = [(g, l) for g, l in api.result_cases(r_b) if l.op == "adt" and l.a[0] == "Result" and l.a[1] == 0]
    if len(oks_b) != 1:
        rep.violated("C07/F6/all/anchor", "preparing a prepared set has one successful outcome", construct=where,
                     why="%d Ok cases" % len(oks_b))
    else:
        g_b, l_b = oks_b[0]
        m_b = A.of(tm.proj(l_b.a[2], 0, 1, "wdata"))
        ok1 = tm.and_(*[A.cond(g) for g in gates])
        ok2 = tm.and_(*[A.cond(g) for g in g_b])
        unit = {}
        for cj in (ok1.a if ok1.op == "and" else (ok1,)):
            if cj.op == "not":
                unit[cj.a[0]] = tm.FALSE
            elif cj.op not in ("or", "and", "ite"):
                unit[cj] = tm.TRUE
        acc = tm.subst(ok2, unit)
        if acc is tm.TRUE or unsat(ev_b, [ok1, tm.not_(ok2)]):
            rep.discharged("C07/F6/all/accepted", "a set accepted by normalize is accepted again after preparation (all files)")
        else:
            rep.violated("C07/F6/all/accepted", "preparing an already prepared set never fails", construct=where,
                         why="second acceptance condition under the first: %s" % tm.show(acc, 3)[:200])
        nbad = 0
        for k in A.keys:
            p1, v1 = m[k]
            p2, v2 = m_b[k]
            okp = p1 is p2 or tm.subst(p1, unit) is tm.subst(p2, unit) or \
                (unsat(ev_b, [ok1, p1, tm.not_(p2)]) and unsat(ev_b, [ok1, tm.not_(p1), p2]))
            okv = all(v1[f] is v2[f] or tm.subst(v1[f], unit) is tm.subst(v2[f], unit) for f in keyspace.VAL_FIELDS)
            if not okv and okp:
                # values only matter where the key is present; compare leaf by leaf under the path conditions
                okv = all(equal_under(ev_b, [ok1, p1], v1[f], v2[f], unsat) for f in keyspace.VAL_FIELDS)
            if okp and okv:
                continue
            nbad += 1
            if nbad <= 5:
                rep.violated("C07/F6/all/%s" % key_name(k), "preparing an already prepared set changes nothing (any file)", construct=where,
                             why="%s differs after a second preparation: presence %s -> %s" % (key_name(k), tm.show(tm.subst(p1, unit), 2)[:80],
                                                                                          tm.show(tm.subst(p2, unit), 2)[:80]))
        if nbad == 0:
            rep.discharged("C07/F6/all/keys", "for an arbitrary accepted file every one of the 216 keys has the same presence and value after a second preparation",
                           derivation="composition normalize∘normalize in the key-space abstraction")
    # F3 pipelines and user factors
    sub_body = ctx.find_public_fn(lib, "Factors::set_user_wfactors")
    ev2, r2, a2 = ctx.eval_entry("lib", sub_body)
    base2 = tm.proj(a2[0], 0, 1, "wdata")
    A2 = keyspace.Abs(base2)
    m2 = A2.of(tm.proj(r2, 0, 1, "wdata"))
    user = a2[1]
    for i, red in enumerate(("RED1", "RED2")):
        k = K(red, "RED", "SUMINISTRO", "A")
        uopt = tm.proj(user, 0, i, "red%d" % (i + 1))
        some = {tm.isvar(uopt, "Option", 1): tm.TRUE}
        none = {tm.isvar(uopt, "Option", 1): tm.FALSE}
        p, v = m2[k]
        given = all(tm.subst(v[f], some) is tm.getf(tm.proj(uopt, 1, 0, None), "RenNrenCo2", f) for f in keyspace.VAL_FIELDS) \
            and tm.subst(p, some) is tm.TRUE
        kept = all(tm.subst(v[f], none) is A2.v0[k][f] for f in keyspace.VAL_FIELDS) and tm.subst(p, none) is A2.p0[k]
        others = all(m2[o][0] is A2.p0[o] and all(m2[o][1][f] is A2.v0[o][f] for f in keyspace.VAL_FIELDS)
                     for o in A2.keys if o not in (K("RED1", "RED", "SUMINISTRO", "A"), K("RED2", "RED", "SUMINISTRO", "A")))
        key = "C07/F3/user/%s" % red
        if given and kept and others:
            rep.discharged(key, "a user %s overrides the file value; without it the file value stays; no other key changes" % red)
        else:
            rep.violated(key, "%s: user value > file value; nothing else is touched" % red, construct=loc_of(sub_body),
                         why="user value applied=%s, file value kept=%s, other keys untouched=%s" % (given, kept, others))
    for fn in ("cte::wfactors_from_str", "cte::wfactors_from_loc"):
        b = ctx.find_public_fn(lib, fn)
        ev3, r3, a3 = ctx.eval_entry("lib", b, opaque=["wfactors::Factors::normalize", "wfactors::Factors::set_user_wfactors",
                                                       "<wfactors::Factors as std::str::FromStr>::from_str"])
        calls = [t for t in tm.subterms(r3) if t.op == "call" and str(t.a[0]).startswith("summary:")]
        norm = [t for t in calls if "normalize" in t.a[0]]
        key = "C07/F3/pipeline/%s" % fn.split("::")[-1]
        ok = False
        if len(norm) == 1:
            inner = norm[0].a[1]
            if inner.op == "call" and "set_user_wfactors" in inner.a[0] and inner.a[2] is a3[-2] and norm[0].a[2] is a3[-1]:
                ok = True
        if ok:
            rep.discharged(key, "%s = normalize(set_user_wfactors(source, user), defaults)" % fn.split("::")[-1])
        else:
            rep.violated(key, "user values are applied before defaults are filled in (user > file > default)",
                         construct=loc_of(b), why=tm.show(r3, 5)[:300])
    rep.analysed = {"keys": len(A.keys), "scenarios": len(scen)}
