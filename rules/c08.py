"""C08 Simplifying the factor set never changes the result (DESIGN §5/C08)."""
import os
from epbd import term as tm
from . import keyspace
from .keyspace import key_of_names as K, key_name
from .common import loc_of, AnchorMissing
from . import c16

INSITU_SRC = {"ELECTRICIDAD": "EL_INSITU", "EAMBIENTE": "EAMBIENTE", "TERMOSOLAR": "TERMOSOLAR"}


def rec(path, **kw):
    fs = tm.field_names(path, 0)
    return tm.adt(path, 0, *[kw.get(f, tm.sym("cls:%s.%s" % (path, f))) for f in fs])


def enum(path, name):
    for i, (n, _f) in tm.ADT_NAMES[path].items():
        if n == name:
            return tm.adt(path, i)
    raise AnchorMissing("%s::%s" % (path, name))


def variant(name):
    for i, (n, _f) in tm.ADT_NAMES["Energy"].items():
        if n == name:
            return i
    raise AnchorMissing("Energy::%s" % name)


def used(carrier, service):
    return tm.adt("Energy", variant("Used"), rec("EUsed", carrier=enum("Carrier", carrier), service=enum("Service", service)))


def prod(source):
    return tm.adt("Energy", variant("Prod"), rec("EProd", source=enum("ProdSource", source)))


def aux(service):
    return tm.adt("Energy", variant("Aux"), rec("EAux", service=enum("Service", service)))


def out(service):
    return tm.adt("Energy", variant("Out"), rec("EOut", service=enum("Service", service)))


def eval_under(t, comps_data, scenario):
    """Evaluate a condition whose atoms are any(iter(components.data), pred) on a finite set of
    component class representatives."""
    sub = {}
    for x in tm.subterms(t):
        if x.op == "any" and x.a[0].op == "iter" and x.a[0].a[0] is comps_data:
            sub[x] = tm.or_(*[tm.apply_lam(x.a[1], [c]) for c in scenario])
    return tm.subst(t, sub) if sub else t


def eval_scenario(t, comps_data, scenario, cache=None):
    """Evaluate reductions over components.data on a finite set of class representatives (symbolic values):
    any -> disjunction, sums -> finite sums (0 when no representative is selected)."""
    cache = {} if cache is None else cache
    r = cache.get(t.id)
    if r is not None:
        return r

    def over_data(src):
        preds = []
        cur = src
        while True:
            if cur.op == "filter":
                preds.append(cur.a[1])
                cur = cur.a[0]
            elif cur.op == "iter" and isinstance(cur.a[0], tm.T) and cur.a[0].op == "collect":
                cur = cur.a[0].a[0]
            elif cur.op in ("iter", "cloned", "copied"):
                cur = cur.a[0]
            else:
                break
        if cur is comps_data:
            return preds
        return None
    r = None
    if t.op in ("any", "sumover", "vsumover") and len(t.a) >= 2 and isinstance(t.a[1], tm.T) and t.a[1].op == "lam":
        preds = over_data(t.a[0])
        if preds is not None:
            sel = []
            for c in scenario:
                g = tm.and_(*[tm.apply_lam(p, [c]) for p in preds]) if preds else tm.TRUE
                if g is not tm.FALSE:
                    sel.append((g, c))
            if t.op == "any":
                r = tm.or_(*[tm.and_(g, tm.apply_lam(t.a[1], [c])) for g, c in sel])
            elif not sel:
                r = tm.ZERO if t.op == "sumover" else tm.mk("rep", tm.ZERO, tm.sym("cls:nsteps"))
    if r is None:
        if not t.a or t.op == "lam":
            r = t
        else:
            args = [eval_scenario(x, comps_data, scenario, cache) if isinstance(x, tm.T) else x for x in t.a]
            r = tm.rebuild(t.op, args) if any(x is not y for x, y in zip(args, t.a)) else t
            if r.op == "sum" and r.a[0].op == "iter" and r.a[0].a[0].op == "rep" and r.a[0].a[0].a[0] is tm.ZERO:
                r = tm.ZERO
            if r.op in ("lt",) and r.a[0] is tm.ZERO and r.a[1] is tm.ZERO:
                r = tm.FALSE
    cache[t.id] = r
    return r


def dhw_indicator_lookups(ctx, rep, m, A, data, where):
    """S2 for the DHW indicator: every factor it looks up on its own (outside the balance's value graph), for
    the minimal building whose DHW uses the carrier of that factor, is kept by strip - unless the path
    condition of the lookup is false for that building."""
    from . import epmodel
    from .c15 import walk_gated
    lib = ctx.lib
    e = epmodel.ep(ctx, False)
    fb = ctx.find_public_fn(lib, "fraccion_renovable_acs_nrb")
    ev, r, _a = ctx.eval_entry("lib", fb, args=[e.ok])
    edata = tm.proj(e.params["components"], 0, 1, "data")
    stop = set()
    for p, t, gates in epmodel.leaves(e.ok, ()):
        if isinstance(t, tm.T) and p and p[0] in ("balance", "balance_cr", "balance_m2", "rer", "rer_nrb", "rer_onst"):
            stop.add(t.id)
    found = {}

    def visit(t, gates):
        if t.op == "find_val" and isinstance(t.a[1], tm.T) and t.a[1].op == "lam":
            el = tm.sym("cls:factor")
            b = tm.apply_lam(t.a[1], [el])
            key = {}
            for c in (b.a if b.op == "and" else (b,)):
                if c.op == "isvar" and c.a[0].op == "proj" and c.a[0].a[0] is el:
                    key[c.a[0].a[3]] = tm.variant_name(c.a[1], c.a[2])
            if set(key) == {"carrier", "source", "dest", "step"}:
                k = K(key["carrier"], key["source"], key["dest"], key["step"])
                found.setdefault((k, tuple(g.id for g in gates)), (k, list(gates)))
    seen = set()

    def walk(t, gates):
        if t.id in stop:
            return
        kk = (t.id, tuple(g.id for g in gates[-8:]))
        if kk in seen:
            return
        seen.add(kk)
        visit(t, gates)
        if t.op == "ite":
            c = t.a[0]
            if c.op == "and":
                # nested ifs are merged into one conjunction: a lookup inside one conjunct only matters
                # (and, in the program, is only evaluated) when the others hold
                for i, ci in enumerate(c.a):
                    walk(ci, gates + [cj for j, cj in enumerate(c.a) if j != i])
            else:
                walk(c, gates)
            walk(t.a[1], gates + [t.a[0]])
            walk(t.a[2], gates + [tm.not_(t.a[0])])
            return
        if t.op in ("lam", "find_val"):
            return
        for x in t.a:
            if isinstance(x, tm.T):
                walk(x, gates)
    walk(r, [])
    rep.floor("dhw-indicator-lookups-found", len(set(k for (k, _g) in found)), 1)
    n = 0
    done = set()
    for (k, _gid), (k, gates) in sorted(found.items(), key=lambda kv: key_name(kv[0][0])):
        cname = tm.variant_name("Carrier", k[0])
        for extra, tag in (([], ""), ([used("ELECTRICIDAD", "ACS")], "+electric-dhw")):
            witness = [used(cname, "ACS")] + extra
            g = tm.and_(*[eval_scenario(x, edata, witness) for x in gates]) if gates else tm.TRUE
            if os.environ.get("EPBD_DEBUG"):
                print("DHW-LOOKUP", key_name(k), tag, "gates", len(gates), "->", tm.show(g, 2)[:80])
            if g is tm.FALSE:
                continue
            dk = (k, tag)
            if dk in done:
                continue
            done.add(dk)
            n += 1
            key = "C08/S2/dhw/%s%s" % (key_name(k), tag)
            p, v = m[k]
            kept = tm.subst(eval_under(p, data, witness), {A.p0[k]: tm.TRUE})
            if kept is tm.TRUE:
                rep.discharged(key, "%s, which the DHW indicator looks up for a building whose DHW uses %s%s, survives the simplification" % (key_name(k), cname, tag))
            elif kept is tm.FALSE:
                rep.violated(key, "a factor the DHW indicator looks up survives the simplification (same results, no new error)", construct=where,
                             why="%s is removed for a building with exactly %s, and the indicator's lookup is not excluded for it"
                                 % (key_name(k), [tm.show(w, 2)[:40] for w in witness]))
            else:
                rep.underivable(key, "need => kept is decidable on the witness", construct=where, why=tm.show(kept, 3)[:200])
    # the converse: a lookup that also happens for a building that does NOT use the factor's carrier (whose factors the
    # simplification has removed) turns a successful evaluation into an error
    foreign_done = set()
    for (k, _gid), (k, gates) in sorted(found.items(), key=lambda kv: key_name(kv[0][0])):
        cname = tm.variant_name("Carrier", k[0])
        others = [c for c in ("BIOMASA", "BIOMASADENSIFICADA", "GASNATURAL", "ELECTRICIDAD") if c != cname]
        scen = []
        for o in others:
            scen.append(([used(o, "ACS")], o))
            if o != "GASNATURAL" and cname != "GASNATURAL":
                scen.append(([used(o, "ACS"), used("GASNATURAL", "ACS"), out("ACS")], o + "+GASNATURAL+output"))
        for witness, tag in scen:
            if (k, tag) in foreign_done or not gates:
                continue
            g = tm.and_(*[eval_scenario(x, edata, witness) for x in gates])
            if g is tm.FALSE:
                continue              # the lookup is excluded for this building
            p, _v = m[k]
            kept = tm.subst(eval_under(p, data, witness), {A.p0[k]: tm.TRUE})
            foreign_done.add((k, tag))
            key = "C08/S2/dhw-foreign/%s/%s" % (key_name(k), tag)
            if kept is tm.FALSE:
                rep.violated(key, "the DHW indicator looks up only factors the simplification keeps for that building",
                             construct=where, why="%s is looked up for a building with exactly %s, for which it has been removed"
                             % (key_name(k), [tm.show(w, 2)[:40] for w in witness]))
            else:
                rep.discharged(key, "%s is looked up for a building served by %s and is kept for it" % (key_name(k), tag), nontrivial=False)
    return n


def readable_again(ctx, rep, stripped, base, data, carriers, where):
    """S4: the simplified set (what --of saves) can be prepared again.  normalize is evaluated on the
    result of strip in the key-space abstraction, for a complete initial set and every single-carrier
    building: it must accept it (it accepts the complete set itself)."""
    from epbd import api
    from . import c07
    lib = ctx.lib
    nb = ctx.find_public_fn(lib, "Factors::normalize")
    ev2, r2, _a = ctx.eval_entry("lib", nb, args=[stripped, tm.sym("in:defaults")])
    A = keyspace.Abs(base)
    cases = [(tm.and_(*[A.cond(g) for g in gs]), lf) for gs, lf in api.result_cases(r2)]
    sub = c07.scenario(A, set(A.keys))
    n = 0
    for c in carriers:
        for extra, tag in (([], ""), ([used("ELECTRICIDAD", "ILU")], "+electricity")):
            w = [used(c, "CAL")] + extra
            hits = []
            und = 0
            for cond, lf in cases:
                c2 = tm.subst(eval_under(cond, data, w), sub)
                if c2 is tm.TRUE:
                    hits.append("ok" if (lf.op == "adt" and lf.a[1] == 0) else "err")
                elif c2 is not tm.FALSE:
                    und += 1
            n += 1
            key = "C08/S4/%s%s" % (c, tag)
            if hits == ["ok"] and not und:
                rep.discharged(key, "the set simplified for a building using %s%s is accepted again by normalize" % (c, tag))
            elif und or len(hits) != 1:
                rep.underivable(key, "the simplified set can be read back and prepared again", construct=where,
                                why="outcome of normalize(strip(set)) not decided (%d undecided cases)" % und)
            else:
                rep.violated(key, "the factor file saved after simplification (--of) can be read back: normalize accepts it",
                             construct=where, why="for a building using only %s%s, normalize rejects the simplified set "
                             "(a key it requires was removed)" % (c, tag))
    return n


def run(ctx, rep):
    rep.rule = ("S1 strip is a composition of order-preserving retains over the given list; S2 for every lookup the balance "
                "performs (oracle: C02 transcription) and every minimal witness set of component classes that makes it happen, "
                "the retain predicates keep that key (key-space abstraction, predicates evaluated on class representatives; "
                "predicates monotone in component existence); S3 strip is total (no reachable panic)")
    rep.explanation = ("A factor wrongly judged unnecessary matters only for buildings reaching that lookup; need ⇒ kept is "
                       "decided over the finite key space and the finite space of component classes.")
    rep.rule += "; S4 normalize accepts strip's result for a complete set and every single-carrier building (composition in the key space)"
    rep.assumptions = ["a factor file defines each key at most once", "cogenerated-electricity factors are added after stripping (inside energy_performance)"]
    lib = ctx.lib
    body = ctx.find_public_fn(lib, "Factors::strip")
    where = loc_of(body)
    ev, r, args = ctx.eval_entry("lib", body)
    selfv, comps = args[0], args[1]
    base = tm.proj(selfv, 0, 1, "wdata")
    data = tm.proj(comps, 0, 1, "data")
    wd = tm.proj(r, 0, 1, "wdata")
    # S1 shape
    t = wd
    n_ret = 0
    while t.op == "retain":
        n_ret += 1
        t = t.a[0]
    if t is base and n_ret >= 1 and tm.proj(r, 0, 0, "wmeta") is tm.proj(selfv, 0, 0, "wmeta"):
        rep.discharged("C08/S1", "strip only filters the given list (%d retains): order and values of kept factors unchanged" % n_ret)
    else:
        rep.violated("C08/S1", "simplification only removes factors (no reordering, no value change)", construct=where,
                     why="result list is %s" % tm.show(wd, 3)[:200])
        return
    A = keyspace.Abs(base)
    m = A.of(wd)
    # S3 totality
    pan = [e for e in ev.effects if e.kind == "panic"]
    left = [e for e in pan if not c16.refute(ev, e)]
    if left:
        for e in left[:3]:
            rep.violated("C08/S3/strip/%s" % e.info, "simplification never crashes, whatever components the building has",
                         construct=where, why="reachable %s in %s" % (e.info, " > ".join(e.stack[-2:])))
    else:
        rep.discharged("C08/S3", "strip applies only total predicates to the unfiltered component list (%d candidate sites refuted)" % len(pan))
    carriers = [n for _i, (n, _f) in sorted(tm.ADT_NAMES["Carrier"].items())]
    needs = []      # (key, witness set, why)
    for c in carriers:
        g = K(c, "RED", "SUMINISTRO", "A")
        needs.append((g, [used(c, "CAL")], "EPB use of %s" % c))
        needs.append((g, [used(c, "NEPB")], "non-EPB use of %s" % c))
        needs.append((g, [used(c, "COGEN")], "cogeneration input of %s" % c))
        if c in INSITU_SRC:
            j = INSITU_SRC[c]
            needs.append((g, [prod(j)], "production of %s" % c))
            needs.append((K(c, "INSITU", "SUMINISTRO", "A"), [prod(j)], "on-site production of %s" % c))
            for st in ("A", "B"):
                needs.append((K(c, "INSITU", "A_RED", st), [prod(j)], "export of %s to the grid" % c))
                needs.append((K(c, "INSITU", "A_NEPB", st), [prod(j), used(c, "NEPB")], "export of %s to non-EPB uses" % c))
                needs.append((K(c, "INSITU", "A_RED", st), [prod(j), used(c, "CAL"), out("CAL")], "export with EPB use and output lines"))
    # a lookup happens only for carriers the balance actually evaluates: read that from
    # energy_performance itself (presence gate of balance_cr[c]) on the same witness set
    from . import epmodel
    e = epmodel.ep(ctx, False)
    pres = dict((cn, p) for (_ci, cn, p, _bc) in e.carriers())
    edata = tm.proj(e.params["components"], 0, 1, "data")
    # factors for cogenerated electricity given in the file take precedence (first match) over the derived ones
    cg = [prod("EL_COGEN"), used("GASNATURAL", "COGEN")]
    needs.append((K("ELECTRICIDAD", "COGEN", "SUMINISTRO", "A"), cg, "file-defined cogeneration supply factor"))
    for st in ("A", "B"):
        needs.append((K("ELECTRICIDAD", "COGEN", "A_RED", st), cg, "file-defined cogeneration export-to-grid factor"))
        needs.append((K("ELECTRICIDAD", "COGEN", "A_NEPB", st), cg + [used("ELECTRICIDAD", "NEPB")],
                      "file-defined cogeneration export-to-nEPB factor"))
    s4 = readable_again(ctx, rep, r, base, data, carriers, where)
    dhw_indicator_lookups(ctx, rep, m, A, data, where)
    n = 0
    skipped = 0
    for k, witness, why in needs:
        cname = tm.variant_name("Carrier", k[0])
        balanced = eval_under(pres.get(cname, tm.FALSE), edata, witness)
        if balanced is not tm.TRUE:
            skipped += 1
            continue
        n += 1
        key = "C08/S2/%s/%s" % (key_name(k), why.replace(" ", "-"))
        p, v = m[k]
        kept = tm.subst(eval_under(p, data, witness), {A.p0[k]: tm.TRUE})
        vals_same = all(v[f] is A.v0[k][f] for f in keyspace.VAL_FIELDS)
        if kept is tm.TRUE and vals_same:
            rep.discharged(key, "%s is kept when needed (%s)" % (key_name(k), why))
        elif kept is tm.FALSE or not vals_same:
            rep.violated(key, "a factor the balance looks up (%s) survives the simplification" % why, construct=where,
                         why="%s is removed for a building with exactly %s" % (key_name(k), [tm.show(w, 2)[:40] for w in witness]))
        else:
            rep.underivable(key, "keep condition decidable on class representatives", construct=where, why=tm.show(kept, 4)[:200])
    # monotonicity: existence of further components can only keep more
    neg = False
    pol_memo = {}

    def is_exists(y):
        return y.op == "any" and y.a[0].op == "iter" and y.a[0].a[0] is data

    def mentions_exists(x):
        r = pol_memo.get(("m", x.id))
        if r is None:
            r = any(is_exists(y) for y in tm.subterms(x))
            pol_memo[("m", x.id)] = r
        return r

    def negative(x, pol):
        """does an existence test over the components occur with negative (or unknown) polarity in x?"""
        k = (x.id, pol)
        if k in pol_memo:
            return pol_memo[k]
        pol_memo[k] = False
        if is_exists(x):
            r = pol <= 0
        elif not mentions_exists(x):
            r = False
        elif x.op == "not":
            r = negative(x.a[0], -pol)
        elif x.op in ("and", "or"):
            r = any(negative(y, pol) for y in x.a)
        elif x.op == "ite":
            r = negative(x.a[0], 0) or negative(x.a[1], pol) or negative(x.a[2], pol)
        else:
            r = True        # inside a comparison or another operator: polarity unknown
        pol_memo[k] = r
        return r
    for k in A.keys:
        p, _v = m[k]
        if negative(p, 1):
            neg = True
    if neg:
        rep.violated("C08/S2/monotone", "adding components never removes a needed factor", construct=where,
                     why="a retain predicate depends negatively on the existence of a component class")
    else:
        rep.discharged("C08/S2/monotone", "keep predicates are monotone in the existence of components (minimal witnesses suffice)")
    rep.analysed = {"lookups_x_witnesses": n, "retains": n_ret, "witness_sets_not_balanced": skipped}
    rep.floor("need-cases-considered", n + skipped, 60)
    rep.floor("need-cases", n, 30)
