"""C12 On-site electricity is used first; load matching can only lower self-use (DESIGN §5/C12)."""
from epbd import term as tm, alg, order
from . import epmodel
from .epmodel import get, emap_items
from .common import loc_of, AnchorMissing
from .c01 import make_base_nonneg


def entry(m, name):
    for n, p, v in emap_items(m):
        if n == name:
            return p, v
    raise AnchorMissing("map entry %s" % name)


def run(ctx, rep):
    rep.rule = ("(a) priority list for ELECTRICIDAD is the literal [EL_INSITU, EL_COGEN] (public get_priorities evaluated "
                "on every carrier); (b) in the two-source instance the per-source used energy equals f*min(P_insitu,use) and "
                "f*min(P_cogen, use - min(P_insitu,use)) as normal forms, and their sum is <= use; (c) f_match is the "
                "load-matching atom of x = production/use (1 when either is zero), literal 1 without load matching; "
                "(d) used(lm) = f*used(no lm) <= used(no lm) and delivered(lm) >= delivered(no lm)")
    rep.explanation = ("The ELECTRICIDAD instance of the value graph is compared, as normal forms for all inputs, with the "
                       "allocation the standard prescribes; the two load-matching instances are related algebraically.")
    rep.assumptions = ["A1 non-negative inputs", "A2 real arithmetic", "R7 hand-proved once: (x+1/x-1)/(x+1/x) in [1/2,1) for x>0"]
    lib = ctx.lib
    # (a) priorities
    body = ctx.find_public_fn(lib, "ProdSource::get_priorities")
    names = tm.ADT_NAMES["Carrier"]
    n_pri = 0
    for ci, (cname, _f) in sorted(names.items()):
        ev, r, _a = ctx.eval_entry("lib", body, args=[tm.adt("Carrier", ci)])
        key = "C12/a/priorities/%s" % cname
        n_pri += 1
        if r.op != "tuple" or len(r.a) != 2:
            rep.underivable(key, "get_priorities returns (bool, list)", construct=loc_of(body))
            continue
        has, lst = r.a
        if cname == "ELECTRICIDAD":
            want = [("ProdSource", "EL_INSITU"), ("ProdSource", "EL_COGEN")]
            got = [(x.a[0], tm.variant_name(x.a[0], x.a[1])) for x in lst.a] if lst.op == "seq" else None
            if has is tm.TRUE and got == want:
                rep.discharged(key, "electricity priorities are [EL_INSITU, EL_COGEN]", derivation=str(got))
            else:
                rep.violated(key, "on-site electricity has priority over cogenerated electricity",
                             construct=loc_of(body), why="priorities evaluate to %s, %s" % (tm.show(has), tm.show(lst, 3)))
        else:
            if has is tm.FALSE:
                rep.discharged(key, "no priorities for %s" % cname, nontrivial=False)
            else:
                rep.violated(key, "only electricity has source priorities", construct=loc_of(body),
                             why=tm.show(r, 3))
    rep.floor("priority-instances", n_pri, 12)
    # (b)-(d) on the ELECTRICIDAD instance
    e0 = epmodel.ep(ctx, False)
    e1 = epmodel.ep(ctx, True)
    where = loc_of(e0.body)
    A = alg.Algebra()
    P = order.Prover(A, make_base_nonneg(e0))
    bc0 = [x for x in e0.carriers() if x[1] == "ELECTRICIDAD"][0][3]
    bc1 = [x for x in e1.carriers() if x[1] == "ELECTRICIDAD"][0][3]
    for lm, bc in ((0, bc0), (1, bc1)):
        pI, PI = entry(get(bc, "prod", "by_src_t"), "EL_INSITU")
        pC, PC = entry(get(bc, "prod", "by_src_t"), "EL_COGEN")
        both = [pI, pC]
        use = A.pw(get(bc, "used", "epus_t"))
        f = A.pw(get(bc, "f_match"))
        p1, p2 = A.pw(PI), A.pw(PC)
        u1 = A.pmin(p1, use)
        u2 = A.pmin(p2, alg.padd(use, u1, -1))
        _, eI = entry(get(bc, "prod", "epus_by_src_t"), "EL_INSITU")
        _, eC = entry(get(bc, "prod", "epus_by_src_t"), "EL_COGEN")
        gotI = A.assume_conditions(A.pw(eI), both)
        gotC = A.assume_conditions(A.pw(eC), both)
        for nm, got, want in (("EL_INSITU", gotI, alg.pmul(f, u1)), ("EL_COGEN", gotC, alg.pmul(f, u2))):
            key = "C12/b/alloc/%s/lm=%d" % (nm, lm)
            clause = {"EL_INSITU": "used on-site electricity = f * min(P_insitu, use)",
                      "EL_COGEN": "used cogenerated electricity = f * min(P_cogen, use - min(P_insitu, use))"}[nm]
            if got == want:
                rep.discharged(key, clause, derivation="nf equal under [both sources present]")
            else:
                rep.violated(key, clause, construct=where,
                             why="got - expected = %s" % A.show(alg.padd(got, want, -1), 3)[:500])
        tot = A.assume_conditions(A.pw(get(bc, "prod", "epus_t")), both)
        key = "C12/b/total/lm=%d" % lm
        # L1 (hand-proved, a, p1, p2 >= 0): min(a, p1 + p2) = min(p1, a) + min(p2, a - min(p1, a))
        ptot = A.pw(get(bc, "prod", "t"))      # = p1 + p2 by C01/O8
        alts = (alg.pmul(f, A.pmin(use, alg.padd(p1, p2))), A.assume_conditions(alg.pmul(f, A.pmin(use, ptot)), both), A.assume_conditions(alg.pmul(f, A.pmin(ptot, use)), both))
        if tot == alg.padd(gotI, gotC) or (tot in alts and gotI == alg.pmul(f, u1) and gotC == alg.pmul(f, u2)):
            rep.discharged(key, "used production = on-site part + cogenerated part")
        else:
            rep.violated(key, "used production = on-site part + cogenerated part", construct=where,
                         why=A.show(alg.padd(tot, alg.padd(gotI, gotC), -1), 3)[:400])
        P.steps = 0
        key = "C12/b/bound/lm=%d" % lm
        if P.le(alg.padd(gotI, gotC), use):
            rep.discharged(key, "both allocations together never exceed the EPB use",
                           derivation="rules %s" % sorted(P.used_rules))
        else:
            rep.underivable(key, "both allocations together never exceed the EPB use", construct=where)
        # (c) f_match
        key = "C12/c/f_match/lm=%d" % lm
        if lm == 0:
            if f.const_value() == 1:
                rep.discharged(key, "without load matching the factor is 1 at every step")
            else:
                rep.violated(key, "without load matching the factor is 1 at every step", construct=where,
                             why=A.show(f, 3)[:300])
        else:
            at = A.atom_of(f)
            prod = A.pw(get(bc, "prod", "t"))
            # x = production / use when use > 0, else 0
            x_want = A.sx(tm.ZERO, None)
            ok = False
            if at is not None and at.kind == "lmatch":
                x = at.parts[0]
                use_t = get(bc, "used", "epus_t")
                # rebuild the documented argument from the same vectors: [0 < use] * prod / use
                ind_pos = None
                for aid in x.atoms():
                    a2 = A.atoms[aid]
                    if a2.kind == "ind":
                        ck2 = a2.parts[1]
                        # the indicator [0 < use] (other indicators - presence of a source - belong to the production)
                        if isinstance(ck2, tuple) and ck2[0] == "lt0" and A.poly_of_pid(ck2[1]) == alg.pscale(use, -1):
                            ind_pos = a2
                if ind_pos is not None:
                    ipoly = alg.Poly({((ind_pos.id, 1),): 1})
                    x_want = alg.pmul(alg.pmul(ipoly, prod), A.inv(use))
                    ck = ind_pos.parts[1]
                    cond_ok = isinstance(ck, tuple) and ck[0] == "lt0" and A.poly_of_pid(ck[1]) == alg.pscale(use, -1)
                    ok = cond_ok and x == x_want
            if ok:
                rep.discharged(key, "f_match = (x+1/x-1)/(x+1/x), x = production/use; 1 when production or use is zero; in [1/2,1]",
                               derivation="load-matching atom recognised on the normal form (R7)")
            else:
                rep.violated(key, "f_match follows formula (32) with x = production/use", construct=where,
                             why="f_match = %s" % A.show(f, 4)[:500])
    # (d) relation between the two modes
    e_no = A.pw(get(bc0, "prod", "epus_t"))
    e_lm = A.pw(get(bc1, "prod", "epus_t"))
    f1 = A.pw(get(bc1, "f_match"))
    key = "C12/d/used"
    if e_lm == alg.pmul(f1, e_no):
        rep.discharged(key, "used production with load matching = f_match * used production without")
    else:
        rep.violated(key, "load matching only scales the self-used production by f_match", construct=where,
                     why=A.show(alg.padd(e_lm, alg.pmul(f1, e_no), -1), 3)[:500])
    P.steps = 0
    if P.le(e_lm, e_no):
        rep.discharged("C12/d/used<=", "load matching never increases the produced energy used on site")
    else:
        rep.underivable("C12/d/used<=", "load matching never increases the produced energy used on site", construct=where)
    P.steps = 0
    if P.le(A.pw(get(bc0, "del", "grid_t")), A.pw(get(bc1, "del", "grid_t"))):
        rep.discharged("C12/d/del>=", "load matching never decreases the energy delivered by the grid")
    else:
        rep.underivable("C12/d/del>=", "load matching never decreases the energy delivered by the grid", construct=where)
    # (e) the command-line program: "without load matching" is "the option --load_matching was not given" - the value
    # reaching energy_performance is the presence of the option and nothing else (no file content can switch it on)
    from .c19 import find_calls
    from .c16 import MAIN_SUMMARIES
    mb = ctx.find_public_fn(ctx.bin, "main")
    evm, _r, _a = ctx.eval_entry("bin", mb, opaque=MAIN_SUMMARIES)
    eps = find_calls(evm, "summary:balance::energy_performance")
    if len(eps) != 1 or len(eps[0].a) != 6:
        rep.violated("C12/e/anchor", "main calls energy_performance(components, factors, k_exp, arearef, load_matching) once",
                     construct=loc_of(mb), why="found %d calls" % len(eps))
    else:
        lmv = eps[0].a[5]
        present = tm.mk("cli_present", tm.string("load_matching"))
        off = tm.subst(lmv, {present: tm.FALSE})
        on = tm.subst(lmv, {present: tm.TRUE})
        if off is tm.FALSE and on is tm.TRUE:
            rep.discharged("C12/e/cli", "the program evaluates with load matching exactly when --load_matching is given")
        else:
            rep.violated("C12/e/cli", "without the option --load_matching the evaluation is made without load matching (factor 1)",
                         construct=loc_of(mb), why="without the option the value passed is %s; with it %s"
                         % (tm.show(off, 4)[:200], tm.show(on, 4)[:100]))
    rep.analysed = {"instances": "ELECTRICIDAD x {lm off, lm on}; get_priorities on 12 carriers"}
