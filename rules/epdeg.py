"""Degree / extensivity analysis of the energy_performance value graph (shared by C11, C09)."""
from fractions import Fraction

from epbd import term as tm, alg, degree
from . import epmodel
from .epmodel import get, leaves, pstr

E1 = (Fraction(1), Fraction(0))
Z0 = (Fraction(0), Fraction(0))
A1 = (Fraction(0), Fraction(1))


def base_degree_fn(e):
    comps = e.params.get("components")
    wf = e.params.get("wfactors")
    kexp = e.params.get("k_exp")
    area = e.params.get("arearef")

    def base(atom):
        if atom.key == ("nsteps",):
            return Z0
        t = atom.term
        if t is None:
            return None
        if t is kexp:
            return Z0
        if t is area:
            return A1
        fs = tm.free_syms(t)
        if atom.kind == "elt":
            # per-step element of a vector built from declared component values only
            if fs and all(s is comps for s in fs):
                return E1
            return None
        # scalar terms
        if fs and all(s is wf for s in fs):
            return Z0            # a weighting factor value read from the factor set
        if t.op in ("len", "count"):
            return Z0
        if fs and all(s is comps for s in fs):
            if t.op == "proj" and t.a[3] in ("id",):
                return Z0
            return None
        return None
    return base


def admitted_guard(at, d):
    """Absolute thresholds named by the property text: `prod > 1e-3` (share of production)
    and `arearef < 1e-3`."""
    cst = d.m.get((), 0)
    others = [k for k in d.m if k != ()]
    if cst != 0 and abs(cst) == Fraction(1, 1000) and len(others) >= 1:
        return True
    return False


def analyse(ctx, lm):
    e = epmodel.ep(ctx, lm)
    A = alg.Algebra()
    D = degree.DegreeAnalysis(A, base_degree_fn(e), admitted_guard)
    return e, A, D
