"""Degree / extensivity analysis of the energy_performance value graph (shared by C11, C09)."""
from fractions import Fraction

from epbd import term as tm, alg, degree
from . import epmodel
from .epmodel import get, leaves, pstr

E1 = (Fraction(1), Fraction(0))
Z0 = (Fraction(0), Fraction(0))
A1 = (Fraction(0), Fraction(1))


def base_degree_fn(e):
    comps = e.params.get("components")
    wf = e.params.get("wfactors")
    kexp = e.params.get("k_exp")
    area = e.params.get("arearef")

    def base(atom):
        if atom.key == ("nsteps",):
            return Z0
        t = atom.term
        if t is None:
            return None
        if t is kexp:
            return Z0
        if t is area:
            return A1
        fs = tm.free_syms(t)
        if atom.kind == "elt":
            # per-step element of a vector built from declared component values only
            if fs and all(s is comps for s in fs):
                return E1
            return None
        # scalar terms
        if fs and all(s is wf for s in fs):
            return Z0            # a weighting factor value read from the factor set
        if t.op in ("len", "count"):
            return Z0
        if fs and all(s is comps for s in fs):
            if t.op == "proj" and t.a[3] in ("id",):
                return Z0
            return None
        return None
    return base


def make_admitted_guard(A, e):
    """Absolute thresholds named by the property text (`why_tests_cant`: "1e-3 on production shares") and the
    documented rejection of a null area: a comparison `x  <> 1e-3` is admitted only when x is the **per-step
    production** of a carrier (a sum of per-step Σ over PRODUCCION lines, possibly gated by presence indicators) or
    the reference area itself.  Any other quantity compared with a constant is an absolute threshold."""
    from .c01 import gate_of, component_classes
    from .c02 import _all_classes
    area = e.params.get("arearef")
    memo = {}

    def production_atom(a):
        r = memo.get(a.id)
        if r is not None:
            return r
        r = False
        t = a.term
        if a.kind == "elt" and a.perstep and t is not None and t.op == "vsumover":
            r = True
            some = False
            for cls_name, kind, _tag, _car, comp in _all_classes():
                g = gate_of(t.a[0], comp)
                if kind == "Prod":
                    if g is tm.TRUE:
                        some = True
                    elif g is not tm.FALSE:
                        r = False
                elif g is not tm.FALSE:
                    r = False
            r = r and some
        memo[a.id] = r
        return r

    def admitted(at, d):
        cst = d.m.get((), 0)
        others = [k for k in d.m if k != ()]
        if cst == 0 or abs(cst) != Fraction(1, 1000) or not others:
            return False
        for mono in others:
            kinds = [A.atoms[aid] for aid, _pw in mono]
            if any(pw != 1 for _aid, pw in mono):
                return False
            main = [a for a in kinds if a.kind != "ind"]
            if len(main) != 1:
                return False
            a = main[0]
            if area is not None and a.kind == "term" and a.term is area and len(kinds) == 1:
                continue
            if production_atom(a):
                continue
            return False
        return True
    return admitted


def analyse(ctx, lm):
    e = epmodel.ep(ctx, lm)
    A = alg.Algebra()
    D = degree.DegreeAnalysis(A, base_degree_fn(e), make_admitted_guard(A, e))
    return e, A, D
