"""C15 The renewable share of DHW demand (DESIGN §5/C15) - claimed in part.

W1 non-interference: the value graph of fraccion_renovable_acs_nrb composed with energy_performance has
   no k_exp and no reference area among its inputs; every reduction over the component list that the
   indicator itself adds (not those of the balance) is evaluated on class representatives and excludes
   non-EPB uses, other services' non-electric uses, other services' outputs and auxiliaries.
W2 scale invariance: the Ok value has degree (0,0); non-homogeneous guards are the listed noise floors.
W3 error cases: no declared demand -> Err; |demand| < eps -> Err unless there is no DHW use at all
   (documented Ok(0)); the by-difference biomass formula is used only when no non-nearby carrier is
   left among the DHW carriers; incorpora... writes the value key on Ok and the error key on Err and
   removes the other.
W4 guarded division: every denominator is non-zero under its path condition.
Not decided: the range [0,1] and the closed-form values of the canonical supply mixes."""
from fractions import Fraction

from epbd import term as tm, api, alg, degree
from . import epmodel, epdeg
from .common import loc_of, AnchorMissing
from .c04 import unsat
from .c05 import comp         # noqa: F401
from .c10 import flat_filter, mk_filter, ok_payloads

NOISE_FLOORS = [Fraction(1, 100)]          # |x| < 0.01 kWh: "no consumption left"; f32::EPSILON is symbolic (const)


class Entail(object):
    """Propositional consequences of a path condition by unit propagation (atoms are opaque terms)."""

    def __init__(self, gates):
        self.lits = {}
        self.terms = {}
        self.clauses = []
        self.conflict = False
        for g in gates:
            self.add(g, True)
        self.propagate()

    def add(self, g, val):
        if g is tm.TRUE or g is tm.FALSE:
            if (g is tm.TRUE) != val:
                self.conflict = True
            return
        if g.op == "not":
            return self.add(g.a[0], not val)
        if g.op == "le" and len(g.a) == 2:
            return self.add(tm.mk("lt", g.a[1], g.a[0]), not val)     # a <= b  ==  not (b < a)
        if g.op == "and" and val:
            for x in g.a:
                self.add(x, True)
            return
        if g.op == "or" and not val:
            for x in g.a:
                self.add(x, False)
            return
        if g.op == "and" and not val:
            self.clauses.append([(x, False) for x in g.a])
        elif g.op == "or" and val:
            self.clauses.append([(x, True) for x in g.a])
        elif g.op == "ite" and len(g.a) == 3:
            c, a, b = g.a
            # (c -> a=val) and (not c -> b=val)
            self.clauses.append([(c, False), (a, val)])
            self.clauses.append([(c, True), (b, val)])
        old = self.lits.get(g.id)
        if old is not None and old != val:
            self.conflict = True
        self.lits[g.id] = val
        self.terms[g.id] = g

    def value(self, t):
        if t is tm.TRUE:
            return True
        if t is tm.FALSE:
            return False
        v = self.lits.get(t.id)
        if v is not None:
            return v
        if t.op == "not":
            v = self.value(t.a[0])
            return None if v is None else (not v)
        if t.op == "le" and len(t.a) == 2:
            v = self.value(tm.mk("lt", t.a[1], t.a[0]))
            return None if v is None else (not v)
        if t.op == "and":
            vs = [self.value(x) for x in t.a]
            if any(v is False for v in vs):
                return False
            if all(v is True for v in vs):
                return True
        if t.op == "or":
            vs = [self.value(x) for x in t.a]
            if any(v is True for v in vs):
                return True
            if all(v is False for v in vs):
                return False
        return None

    def propagate(self):
        for _round in range(20):
            changed = False
            for cl in self.clauses:
                open_ = []
                sat_ = False
                for (t, want) in cl:
                    v = self.value(t)
                    if v is None:
                        open_.append((t, want))
                    elif v == want:
                        sat_ = True
                        break
                if sat_:
                    continue
                if not open_:
                    self.conflict = True
                elif len(open_) == 1:
                    t, want = open_[0]
                    n0 = len(self.lits)
                    self.add(t, want)
                    if len(self.lits) != n0:
                        changed = True
            if not changed:
                break

    def entails(self, t, val=True):
        if self.conflict:
            return True
        return self.value(t) == val


def prune(t, E, cache=None):
    """Drop ite branches whose condition the path condition decides."""
    cache = {} if cache is None else cache
    r = cache.get(t.id)
    if r is not None:
        return r
    if t.op == "ite":
        v = E.value(t.a[0])
        if v is True:
            r = prune(t.a[1], E, cache)
        elif v is False:
            r = prune(t.a[2], E, cache)
    if r is None:
        if not t.a or t.op == "lam":
            r = t
        else:
            args = [prune(x, E, cache) if isinstance(x, tm.T) else x for x in t.a]
            r = tm.rebuild(t.op, args) if any(x is not y for x, y in zip(args, t.a)) else t
    cache[t.id] = r
    return r


def refuted(ev, gates, extra):
    """gates + extra is contradictory (unit propagation first, bounded search second)."""
    E = Entail(list(gates) + list(extra))
    if E.conflict:
        return True
    return unsat(ev, list(gates) + list(extra))


def walk_gated(t, gates, visit, seen):
    """Visit every subterm with the ite conditions on the path from the root (first path wins)."""
    k = (t.id, tuple(g.id for g in gates[-6:]))
    if k in seen:
        return
    seen.add(k)
    visit(t, gates)
    if t.op == "ite":
        c, a, b = t.a
        walk_gated(c, gates, visit, seen)
        walk_gated(a, gates + [c], visit, seen)
        walk_gated(b, gates + [tm.not_(c)], visit, seen)
        return
    if t.op == "lam":
        return
    for x in t.a:
        if isinstance(x, tm.T):
            walk_gated(x, gates, visit, seen)


def run(ctx, rep):
    rep.rule = ("W1 input symbols and class-representative evaluation of the indicator's own reductions over the component list; "
                "W2 degree inference with listed noise floors; W3 substitution of the documented non-computable conditions and "
                "gate refutation for the by-difference formula; W4 denominator guards matched on polynomial normal forms")
    rep.explanation = ("The indicator is a composition of the balance (decided elsewhere) and of a few direct reads of the component "
                       "list and factor set; which inputs and which component classes can reach it, which guards dominate its "
                       "divisions and which conditions lead to Err are properties of the extracted value graph for all inputs.")
    rep.assumptions = ["A1 non-negative inputs", "A2 real arithmetic", "presence flags of per-carrier balances follow C01/C04"]
    lib = ctx.lib
    fb = ctx.find_public_fn(lib, "fraccion_renovable_acs_nrb")
    where = loc_of(fb)
    ndiv = 0
    nred = 0
    for lm in (False, True):
        e = epmodel.ep(ctx, lm)
        ev, r, _a = ctx.eval_entry("lib", fb, args=[e.ok])
        tag = "lm=%d" % lm
        oks = ok_payloads(r)
        if not oks:
            rep.violated("C15/anchor/" + tag, "the indicator returns Ok(value) on some path", construct=where)
            continue
        # ---------------------------------------------------------------- W1 inputs
        fs = tm.free_syms(r)
        for pname in ("k_exp", "arearef"):
            s = e.params.get(pname)
            if s is not None and s in fs:
                rep.violated("C15/W1/%s/%s" % (pname, tag), "the DHW renewable fraction does not depend on %s" % pname, construct=where,
                             why="the input symbol %s occurs in the value graph of the indicator" % pname)
            else:
                rep.discharged("C15/W1/%s/%s" % (pname, tag), "the indicator's value graph does not contain the input %s" % pname)
        nred += w1_classes(ctx, rep, e, r, tag, where)
        # ---------------------------------------------------------------- W2 degree
        w2(ctx, rep, e, r, oks, tag, where)
        # ---------------------------------------------------------------- W3 error cases
        w3(ctx, rep, e, ev, r, oks, tag, where)
        # ---------------------------------------------------------------- W4 divisions
        ndiv += w4(ctx, rep, e, ev, r, tag, where)
    w3_incorpora(ctx, rep, fb)
    # the share of on-site / cogenerated electricity that goes to DHW (read by the indicator) follows the documented split
    from .c04 import by_service_by_source
    by_service_by_source(ctx, rep, prefix="C15/W1/production-share", only_carrier="ELECTRICIDAD", only_service="ACS", floor=4)
    rep.analysed = {"divisions": ndiv, "own_reductions": nred}
    rep.floor("divisions", ndiv, 6)
    rep.floor("own-reductions", nred, 10)


# ------------------------------------------------------------------------------------------ W1
def class_reps():
    X = tm.sym("cls:anyid")
    reps = []
    for cr in ("ELECTRICIDAD", "GASNATURAL", "EAMBIENTE", "BIOMASA", "RED1", "TERMOSOLAR"):
        reps.append(("Used/NEPB/" + cr, comp("Used", X, carrier=cr, service="NEPB")))
    for cr in ("GASNATURAL", "EAMBIENTE", "BIOMASA", "BIOMASADENSIFICADA", "RED1", "TERMOSOLAR"):
        reps.append(("Used/CAL/" + cr, comp("Used", X, carrier=cr, service="CAL")))
    reps.append(("Out/CAL", comp("Out", X, service="CAL")))
    reps.append(("Aux/CAL", comp("Aux", X, service="CAL")))
    return reps


def w1_classes(ctx, rep, e, r, tag, where):
    """Reductions over the component list that are not part of the balance's own value graph."""
    ep_terms = set(t.id for t in tm.subterms(e.ok))
    reps = class_reps()
    n = 0
    reach = {}
    for t in tm.subterms(r):
        if t.id in ep_terms:
            continue
        if t.op not in ("any", "sumover", "vsumover", "sum", "count", "find_val", "collect", "collect_set", "len", "is_empty", "index",
                        "fold", "max_of", "min_of"):
            continue
        src = t.a[0]
        if not isinstance(src, tm.T):
            continue
        full = src
        if t.op in ("any", "find_val") and len(t.a) > 1 and t.a[1].op == "lam":
            full = mk_filter(src, t.a[1])
        stripped = full
        while stripped.op in ("map", "cloned", "copied"):
            stripped = stripped.a[0]
        base, conj = flat_filter(stripped)
        if base != "data":
            continue
        if stripped.op != "filter" and t.op in ("collect", "collect_set", "len", "is_empty", "index"):
            continue
        n += 1
        el = tm.sym("cls:ffel")
        # the predicate as a conjunction over the common element symbol
        conds = []
        cur = stripped
        while True:
            if cur.op == "filter":
                conds.append(tm.apply_lam(cur.a[1], [el]))
                cur = cur.a[0]
            elif cur.op == "iter" and cur.a[0].op == "collect":
                cur = cur.a[0].a[0]
            else:
                break
        pred = tm.and_(*conds) if conds else tm.TRUE
        for name, c in reps:
            v = tm.subst(pred, {el: c})
            if v is not tm.FALSE:
                reach.setdefault(name, []).append((t, v))
    for name, c in reps:
        key = "C15/W1/class/%s/%s" % (name, tag)
        if name in reach:
            t, v = reach[name][0]
            rep.violated(key, "components of class %s cannot change the DHW renewable fraction" % name, construct=where,
                         why="%d reduction(s) of the indicator admit them, e.g. %s when %s" % (len(reach[name]), tm.show(t, 3)[:160], tm.show(v, 3)[:120]))
        else:
            rep.discharged(key, "every component-list reduction added by the indicator excludes class %s" % name)
    return n


# ------------------------------------------------------------------------------------------ W2
def w2(ctx, rep, e, r, oks, tag, where):
    A = alg.Algebra()
    noise = []

    holder = {}

    def admitted(at, d):
        cst = d.m.get((), 0)
        if cst != 0 and abs(cst) in NOISE_FLOORS:
            # a noise floor is a test on an annual energy [kWh]: every other monomial must have degree (1, 0)
            D_ = holder.get("D")
            degs = set(D_.mono(mono) for mono in d.m if mono != ()) if D_ is not None else set()
            if degs == {epdeg.E1}:
                noise.append(at)
                return True
            return False
        return ep_admitted(at, d)
    ep_admitted = epdeg.make_admitted_guard(A, e)
    base = epdeg.base_degree_fn(e)

    def base2(atom):
        t = atom.term
        if t is not None and t.op == "const":
            return epdeg.Z0
        if t is not None and atom.kind == "elt":
            x = t
            while x.op == "proj":
                x = x.a[0]
            if x.op == "bv" and t.op == "proj" and t.a[3] == "values":
                return epdeg.E1          # per-step value of a component bound by a reduction over the list
        return base(atom)
    D = degree.DegreeAnalysis(A, base2, admitted)
    holder["D"] = D
    bad = None
    pruned = []
    for g, leaf in api.result_cases(r):
        if leaf.op == "adt" and leaf.a[0] == "Result" and leaf.a[1] == 0:
            pruned.append(prune(leaf.a[2], Entail(g)))
    for v in pruned:
        try:
            d = D.poly(A.scalar(v))
        except alg.NotScalar as ex:
            bad = "not a scalar: %s" % ex
            continue
        if d not in (epdeg.Z0, "zero"):
            bad = "degree %s (%s)" % (d, "; ".join("%s: %s" % i for i in D.issues[:3]))
    issues = [(k, s) for k, s in D.issues if k in ("mixed-addition", "mixed-min", "mixed-ite", "scale-dependent-guard")]
    # EPSILON thresholds compare an energy with a symbolic constant: they are the documented zero tests
    issues = [(k, s) for k, s in issues if "EPSILON" not in s]
    if bad or issues:
        rep.violated("C15/W2/" + tag, "the fraction is a ratio of energies (scale free) and its guards are scale free or listed noise floors",
                     construct=where, why="; ".join([bad] if bad else []) + "; ".join("%s: %s" % i for i in issues[:3]))
    else:
        rep.discharged("C15/W2/" + tag, "the Ok value has degree (0,0); guards are homogeneous, |x| < 0.01 kWh noise floors, or f32::EPSILON zero tests",
                       derivation="%d noise-floor guards admitted" % len(noise))


# ------------------------------------------------------------------------------------------ W3
def w3(ctx, rep, e, ev, r, oks, tag, where):
    needs = epmodel.get(e.ok, "balance", "needs", "ACS")
    dem = demand_term(needs)
    # (a) no declared demand
    cond = tm.mk("is_None", needs) if False else None
    # the presence condition of the demand, as the balance computes it
    pres_needs = needs.a[0] if needs.op == "ite" else (tm.TRUE if needs.op == "adt" and needs.a[1] == 1 else tm.FALSE)
    if needs.op == "ite" and not (needs.a[1].op == "adt" and needs.a[1].a[1] == 1):
        pres_needs = tm.not_(pres_needs)
    r_none = tm.subst(r, {pres_needs: tm.FALSE}) if pres_needs not in (tm.TRUE, tm.FALSE) else r
    if pres_needs.op == "not":
        r_none = tm.subst(r, {pres_needs.a[0]: tm.TRUE})
    if r_none.op == "adt" and r_none.a[0] == "Result" and r_none.a[1] == 1:
        rep.discharged("C15/W3/no-demand/" + tag, "without a declared DHW demand the indicator is an error")
    else:
        rep.violated("C15/W3/no-demand/" + tag, "without a declared DHW demand the indicator is an error", construct=where,
                     why="no test of the presence of needs.ACS decides the result to Err")
    # (b) zero demand: substitute the zero test, every remaining Ok is the literal 0 of "no DHW use"
    ztests = [t for t in tm.subterms(r) if t.op == "lt" and t.a[0].op == "abs" and t.a[1].op == "const"
              and "EPSILON" in str(t.a[1].a[0]) and t.a[0].a[0] is dem]
    if not ztests:
        rep.violated("C15/W3/zero-demand/" + tag, "a (nearly) zero DHW demand is reported as an error", construct=where,
                     why="no |demand| < EPSILON test found")
    else:
        left = []
        for g, leaf in api.result_cases(r):
            if leaf.op == "adt" and leaf.a[0] == "Result" and leaf.a[1] == 0 and leaf.a[2] is not tm.ZERO:
                if not all(refuted(ev, g, [z]) for z in ztests):
                    left.append(leaf.a[2])
        if left:
            rep.violated("C15/W3/zero-demand/" + tag, "a (nearly) zero DHW demand is reported as an error", construct=where,
                         why="with |demand| < EPSILON a value is still returned: %s" % tm.show(left[0], 3)[:200])
        else:
            rep.discharged("C15/W3/zero-demand/" + tag, "with |demand| < EPSILON the result is Err (or the documented Ok(0) when there is no DHW use)")
    # (c) by-difference formula only without non-nearby carriers among the DHW carriers
    demand_terms = [dem]
    bydiff = []

    def visit(t, gates):
        if t.op == "sub" and any(t.a[0] is d for d in demand_terms):
            bydiff.append((t, list(gates)))
    for v in oks:
        walk_gated(v, [], visit, set())
    # the map of DHW carriers the code consults before taking the biomass share by difference: among the
    # Carrier-keyed maps of numbers built by the entry, the one whose "X is absent" tests for non-nearby X
    # occur as literals of the path condition of the by-difference term (no local name is used)
    nearby = nearby_carriers(ctx)
    cands = {}
    for c in sorted(ev.store.cells):
        v = ev.store.cells[c]
        if isinstance(v, tm.T) and v.op == "emap" and v.a[0] == "Carrier" and \
                all(not (isinstance(x, tm.T) and x.op in ("adt", "emap")) for x in v.a[2::2]):
            cands[v.id] = v
    case_gates = []
    for g, leaf in api.result_cases(r):
        if leaf.op == "adt" and leaf.a[0] == "Result" and leaf.a[1] == 0 and leaf.a[2] is not tm.ZERO:
            case_gates = g
    lits = set()
    for t, gates in bydiff:
        for c in conjuncts(list(case_gates) + gates):
            lits.add(c.id)
    best, cand = 0, None
    for v in cands.values():
        pm = dict((name, p) for name, p, _v in epmodel.emap_items(v))
        score = sum(1 for name, p in pm.items() if name not in nearby and p is not tm.FALSE and tm.not_(p).id in lits)
        if score > best:
            best, cand = score, v
    if cand is None or best < 3:
        rep.violated("C15/W3/biomass-mixed/anchor/" + tag, "the by-difference formula is guarded by the absence of non-nearby DHW carriers",
                     construct=where, why="no Carrier-keyed map of the entry has its non-nearby entries tested on the path to the by-difference term "
                     "(%d candidate maps, best match %d)" % (len(cands), best))
        return
    pres = dict((name, p) for name, p, _v in epmodel.emap_items(cand))
    if not bydiff:
        rep.violated("C15/W3/biomass-mixed/present/" + tag, "biomass alone with nearby carriers is computed by difference from the demand",
                     construct=where, why="no (demand - nearby non-biomass) term found")
    every_biomass_system_declares_output(ev, r, rep, tag, where)
    for name in sorted(pres):
        if name in nearby:
            continue
        bad = None
        for t, gates in bydiff:
            if not refuted(ev, list(case_gates) + gates, [pres[name]]):
                bad = t
        key = "C15/W3/biomass-mixed/%s/%s" % (name, tag)
        if bad is None:
            rep.discharged(key, "with %s among the DHW carriers the biomass share is never taken by difference (declared outputs or error)" % name)
        else:
            rep.violated(key, "biomass mixed with the non-nearby carrier %s needs declared outputs (else error)" % name, construct=where,
                         why="the by-difference term %s is reachable with %s supplying DHW" % (tm.show(bad, 3)[:160], name))


def conjuncts(g):
    """Literal conjuncts of a path condition (and flattened, De Morgan through not/or)."""
    out = []

    def walk(t, pos):
        if t is tm.TRUE and pos:
            return
        if t.op == "not":
            walk(t.a[0], not pos)
        elif t.op == "and" and pos:
            for x in t.a:
                walk(x, True)
        elif t.op == "or" and not pos:
            for x in t.a:
                walk(x, False)
        else:
            out.append(t if pos else tm.not_(t))
    for x in g:
        walk(x, True)
    return out


def positive_exists(gates):
    """`any(src, λ)` sub-formulas occurring with positive polarity in a path condition (through and / or / not / ite)."""
    out = []
    seen = set()

    def walk(t, pos):
        k = (t.id, pos)
        if k in seen:
            return
        seen.add(k)
        if t.op == "not":
            walk(t.a[0], not pos)
        elif t.op in ("and", "or"):
            for x in t.a:
                walk(x, pos)
        elif t.op == "ite":
            walk(t.a[1], pos)
            walk(t.a[2], pos)
        elif t.op == "any" and pos and isinstance(t.a[1], tm.T) and t.a[1].op == "lam":
            out.append(t)
        elif t.op == "all" and not pos and isinstance(t.a[1], tm.T) and t.a[1].op == "lam":
            x = tm.fresh("allq")
            out.append(tm.any_(t.a[0], tm.lam([x], tm.not_(tm.apply_lam(t.a[1], [x])))))
    for g in gates:
        walk(g, True)
    return out


def every_biomass_system_declares_output(ev, r, rep, tag, where):
    """W3: on the declared-output path an error is returned as soon as ONE system burning biomass for DHW
    has no DHW output line: a universal check over the ids of those systems (an early-exit loop over the
    id set, or an all()/any(not ...) over it), whose inner test is 'some output line of that very id
    with service ACS exists' - decided on class representatives."""
    X = tm.sym("cls:otherid")
    for carrier in ("BIOMASA", "BIOMASADENSIFICADA"):
        key = "C15/W3/biomass-output/%s/%s" % (carrier, tag)
        found = None
        why = "no error exit quantified over the systems burning %s for DHW was found" % carrier
        cands = []
        for g, leaf in api.result_cases(r):
            if leaf.op == "loop_pick" and isinstance(leaf.a[1], tm.T) and leaf.a[1].op == "adt" and leaf.a[1].a[1] == 1:
                info = ev.loops_info.get(leaf.a[0])
                if info is not None:
                    cands.append((info["iter"], info["elem"], [c for c in conjuncts(g) if info["elem"] in tm.free_syms(c)]))
            elif leaf.op == "adt" and leaf.a[0] == "Result" and leaf.a[1] == 1:
                # the error of an early exit inside a helper, re-wrapped by `?`
                for lp in tm.subterms(leaf):
                    if lp.op == "loop_pick" and isinstance(lp.a[1], tm.T) and lp.a[1].op == "adt" and lp.a[1].a[1] == 1:
                        info = ev.loops_info.get(lp.a[0])
                        if info is not None:
                            el_ = info["elem"]
                            cs = [c for c in conjuncts(g) if el_ in tm.free_syms(c)]
                            # the exit test may sit inside a disjunction (the same Err leaf merged with another error)
                            for c in list(cs):
                                for t in tm.subterms(c):
                                    if t.op == "not" and t.a[0].op == "any" and el_ in tm.free_syms(t) and t not in cs:
                                        cs.append(t)
                            cands.append((info["iter"], el_, cs))
                # any(ids, λ id. not any(data, p(id)))   /   not all(ids, λ id. any(data, p(id))), as a conjunct of the exit
                # condition or - when several error exits share one merged Err leaf - positively inside its disjunction
                for t in positive_exists(g):
                    el = tm.fresh("idq")
                    cands.append((t.a[0], el, [tm.apply_lam(t.a[1], [el])]))
        for src, el, conds in cands:
            # (i) the ids are those of the components using this carrier for DHW
            base = src.a[0] if src.op == "iter" else src
            preds = []
            cur = base.a[0] if base.op in ("collect_set", "collect") else base
            maps_id = False
            while cur.op in ("map", "filter", "iter", "cloned", "copied", "collect"):
                if cur.op == "filter":
                    preds.append(cur.a[1])
                if cur.op == "map":
                    b = tm.apply_lam(cur.a[1], [tm.sym("cls:midel")])
                    maps_id = maps_id or (b.op == "proj" and b.a[3] == "id")
                cur = cur.a[0]
            if not preds or not maps_id:
                continue
            sel = lambda c: tm.and_(*[tm.apply_lam(p, [c]) for p in preds])          # noqa: E731
            ok_src = sel(comp("Used", X, carrier=carrier, service="ACS")) is tm.TRUE and \
                sel(comp("Used", X, carrier=carrier, service="CAL")) is tm.FALSE and \
                sel(comp("Used", X, carrier="GASNATURAL", service="ACS")) is tm.FALSE and \
                sel(comp("Out", X, service="ACS")) is tm.FALSE
            if not ok_src:
                continue
            # (ii) the exit condition is: no DHW output line of that very id
            for c in conds:
                if not (c.op == "not" and c.a[0].op == "any" and isinstance(c.a[0].a[1], tm.T) and c.a[0].a[1].op == "lam"):
                    continue
                p = c.a[0].a[1]

                def val(cmp_, same):
                    v = tm.apply_lam(p, [cmp_])
                    v = tm.subst(v, {tm.eq(X, el): tm.boolean(same), tm.eq(el, X): tm.boolean(same)})
                    if same:
                        v = tm.subst(v, {X: el})
                        # the loop element is a member of the very set it is drawn from
                        mem = dict((t, tm.TRUE) for t in tm.subterms(v)
                                   if t.op == "contains" and t.a[0] is base and t.a[1] is el)
                        if mem:
                            v = tm.subst(v, mem)
                    return v
                t1 = val(comp("Out", X, service="ACS"), True)
                t2 = val(comp("Out", X, service="CAL"), True)
                t3 = val(comp("Out", X, service="ACS"), False)
                t4 = val(comp("Used", X, carrier=carrier, service="ACS"), True)
                if t1 is tm.TRUE and t2 is tm.FALSE and t3 is tm.FALSE and t4 is tm.FALSE:
                    found = True
                else:
                    why = "the per-system test is not 'a DHW output line of that system exists': on representatives %s" % \
                          [tm.show(x, 2)[:20] for x in (t1, t2, t3, t4)]
        if found:
            rep.discharged(key, "an error is returned as soon as one system burning %s for DHW has no DHW output line (universal over the ids)" % carrier)
        else:
            rep.violated(key, "biomass mixed with a non-nearby carrier is computable only if EVERY biomass system declares its DHW output (else error)",
                         construct=where, why=why)


def demand_term(needs):
    """The payload of balance.needs.ACS when it is Some(..)."""
    t = needs
    while t.op == "ite":
        a, b = t.a[1], t.a[2]
        t = a if (a.op == "adt" and a.a[0] == "Option" and a.a[1] == 1) else b
    if t.op == "adt" and t.a[0] == "Option" and t.a[1] == 1:
        return t.a[2]
    return tm.proj(needs, 1, 0, "0")


def nearby_carriers(ctx):
    lib = ctx.lib
    b = None
    for cand in lib.find_body("is_nearby"):
        if lib.is_hand_written(cand) and "Carrier" in cand.get("path", cand["def"]):
            b = cand
    if b is None:
        raise AnchorMissing("Carrier::is_nearby")
    out = set()
    names = tm.ADT_NAMES.get("Carrier") or {}
    for i, (n, _f) in sorted(names.items()):
        ev, r, _ = ctx.eval_entry("lib", b, args=[tm.adt("Carrier", i)])
        if r is tm.TRUE:
            out.add(n)
    if not out or len(out) == len(names):
        raise AnchorMissing("Carrier::is_nearby does not split the carriers")
    return out


def w3_incorpora(ctx, rep, fb):
    lib = ctx.lib
    b = ctx.find_public_fn(lib, "incorpora_demanda_renovable_acs_nrb")
    ev, r, args = ctx.eval_entry("lib", b, opaque=[fb["def"]])
    where = loc_of(b)
    calls = [t for t in tm.subterms(r) if t.op == "isvar" and isinstance(t.a[0], tm.T) and t.a[0].op == "call"]
    if not calls:
        rep.violated("C15/W3/incorpora/anchor", "the result of the indicator decides what is stored", construct=where,
                     why="no test of the indicator's Result found")
        return
    c = calls[0]
    is_ok = (c.a[2] == 0)
    for val, want_in, want_out, what in ((tm.TRUE if is_ok else tm.FALSE, "fraccion_renovable_demanda_acs_nrb", "error_acs", "ok"),
                                         (tm.FALSE if is_ok else tm.TRUE, "error_acs", "fraccion_renovable_demanda_acs_nrb", "err")):
        r2 = tm.subst(r, {c: val})
        ins = [t.a[1].a[0] for t in tm.subterms(r2) if t.op == "mapinsert" and t.a[1].op == "str"]
        rem = [t.a[1].a[0] for t in tm.subterms(r2) if t.op == "mapremove" and t.a[1].op == "str"]
        ok = ins == [want_in] and want_out in rem and want_in not in rem
        # removal must come after insertion of the other key (outermost operator order)
        if ok:
            rep.discharged("C15/W3/incorpora/" + what, "on %s the key %s is written and %s is removed" % (what, want_in, want_out))
        else:
            rep.violated("C15/W3/incorpora/" + what, "exactly one of value / error is reported", construct=where,
                         why="inserted %s, removed %s" % (ins, rem))
    # the value stored on Ok is the Ok payload with 3 decimals
    r_ok = tm.subst(r, {c: tm.TRUE if is_ok else tm.FALSE})
    payload_ok = False
    for t in tm.subterms(r_ok):
        if t.op == "fmtarg":
            v = t.a[2]
            if any(x.op == "call" for x in tm.subterms(v)) and v.op == "proj":
                payload_ok = True
    if payload_ok:
        rep.discharged("C15/W3/incorpora/value", "the stored text is the formatted Ok payload of the indicator")
    else:
        rep.violated("C15/W3/incorpora/value", "the stored text is the formatted Ok payload of the indicator", construct=where)


# ------------------------------------------------------------------------------------------ W4
def w4(ctx, rep, e, ev, r, tag, where):
    A = alg.Algebra()
    ep_terms = set(t.id for t in tm.subterms(e.ok))
    found = []

    def visit(t, gates):
        if t.op == "div" and t.id not in ep_terms:
            found.append((t, list(gates)))
    walk_gated(r, [], visit, set())
    seen = {}
    for t, gates in found:
        den = t.a[1]
        k = den.id
        ok = guarded(A, den, gates, ev)
        if k in seen and seen[k][0] and not ok:
            seen[k] = (ok, t, gates)
        seen.setdefault(k, (ok, t, gates))
    results = {}
    for k, (ok, t, gates) in seen.items():
        name = den_name(e, t.a[1])
        if name in results and results[name][0] is False:
            continue
        results[name] = (ok, t)
    for name, (ok, t) in sorted(results.items()):
        key = "C15/W4/%s" % name
        if ok:
            rep.discharged(key + "/" + tag, "the denominator is non-zero under its path condition")
        else:
            rep.violated(key, "no division by zero: every denominator is guarded", construct=where,
                         why="unguarded denominator %s in %s" % (tm.show(t.a[1], 3)[:160], tm.show(t, 2)[:120]))
    return len(seen)


def den_name(e, den):
    wf = e.params.get("wfactors")
    fs = tm.free_syms(den)
    fields = sorted(set(t.a[3] for t in tm.subterms(den) if t.op == "proj" and t.a[3] in ("ren", "nren", "co2")))
    if fs and all(s is wf for s in fs) and fields:
        lets = [t for t in tm.subterms(den) if t.op in ("find_val", "let")]
        return "factor-" + "+".join(fields) + ("-cgn" if any("COGEN" in tm.show(x, 6) for x in lets) else "")
    if any(t.op == "sum" for t in tm.subterms(den)) and any(t.op == "proj" and t.a[3] == "ACS" for t in tm.subterms(den)):
        return "annual-demand" if den.op == "sum" else "dhw-quantity"
    return "other-%s" % den.op


def guarded(A, den, gates, ev=None):
    """Some comparison atom of the path condition bounds the denominator away from zero, and the path
    condition (propositionally) fixes that atom."""
    try:
        p = A.pid(A.scalar(den))
    except alg.NotScalar:
        return False
    atoms = {}
    for g in gates:
        for c in tm.subterms(g):
            if c.op in ("lt", "eq") and c.id not in atoms:
                atoms[c.id] = c
    for c in atoms.values():
        a, b = c.a
        if c.op == "lt":
            if a.op == "abs" and same_poly(A, a.a[0], p) and positive_const(b):
                # |den| < eps must be false on this path
                if refuted(ev, gates, [c]):
                    return True
                continue
            if b.op == "abs" and same_poly(A, b.a[0], p) and positive_const(a):
                if refuted(ev, gates, [tm.not_(c)]):
                    return True
                continue
            try:
                d = A.pid(A.scalar(tm.sub(b, a)))
                d2 = A.pid(A.scalar(tm.sub(a, b)))
            except alg.NotScalar:
                continue
            if d == p or d2 == p:
                if refuted(ev, gates, [tm.not_(c)]):
                    return True
        else:
            try:
                d = A.pid(A.scalar(tm.sub(b, a)))
                d2 = A.pid(A.scalar(tm.sub(a, b)))
            except alg.NotScalar:
                continue
            if d == p or d2 == p:
                if refuted(ev, gates, [c]):
                    return True
    return False


def same_poly(A, t, p):
    try:
        return A.pid(A.scalar(t)) == p
    except alg.NotScalar:
        return False


def positive_const(t):
    return t.op == "const" or (t.op == "num" and t.a[0] > 0)
