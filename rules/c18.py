"""C18 Components and factors survive being written out and read back (DESIGN §5/C18):
agreement of each Display template with the value graph of the matching FromStr."""
from epbd import term as tm, api
from epbd.sym import Place
from . import fmtdoc
from .common import loc_of, AnchorMissing

RECORDS = {
    # type: (tag literal or None, has optional id, precision of numeric cells)
    "EUsed": ("CONSUMO", True, 2), "EProd": ("PRODUCCION", True, 2), "EAux": ("AUX", True, 2),
    "EOut": ("SALIDA", False, 2), "Needs": ("DEMANDA", False, 2), "Factor": (None, False, 3),
}
ENUMS = ["Carrier", "Service", "ProdSource", "Source", "Dest", "Step", "CType"]
# fields the reader derives instead of reading (documented asymmetries)
DERIVED = {("EAux", "service"): "assigned by Components::normalize from the system's services",
           ("Needs", "comment"): "building-demand lines carry no comment field"}


def display_doc(ctx, T, ty):
    b = ctx.find_impl_method(ctx.lib, "Display", ty, "fmt")
    ev = ctx.world.ev("lib")
    cell = ev.new_cell(tm.mk("fmtbuf"))
    selfv = tm.sym("in:self")
    ev.call_body(ctx.lib, b, [selfv, Place(cell).ref()])
    return b, selfv, fmtdoc.expand(ev.store.cells[cell], T), ev.store.cells[cell]


def writer_cells(doc, selfv):
    """Split the flat writer document at ', ' into cells."""
    cells = [[]]
    suffix = []
    for seg in doc:
        if seg[0] == "lit":
            parts = seg[1].split(", ")
            for i, p in enumerate(parts):
                if i > 0:
                    cells.append([])
                if p:
                    cells[-1].append(("lit", p))
        elif seg[0] == "alt":
            suffix.append(seg)
        else:
            cells[-1].append(seg)
    out = []
    for c in cells:
        if len(c) == 1 and c[0][0] == "lit":
            out.append(("tag", c[0][1]))
        elif len(c) == 1 and c[0][0] == "hole":
            h = c[0][1]
            v = h.value
            name = v.a[3] if v.op == "proj" and v.a[0] is selfv else None
            out.append(("field", name, h.precision, h.tykey))
        elif len(c) == 1 and c[0][0] == "rep":
            docs, sep = c[0][1], c[0][2]
            el = docs[0] if docs else []
            prec = el[0][1].precision if len(el) == 1 and el[0][0] == "hole" else None
            out.append(("values", sep, prec))
        elif not c:
            out.append(("empty",))
        else:
            out.append(("mixed", c))
    return out, suffix


def find_index(t):
    """(items term, base-relative?, offset) of the first index(...) inside a reader field term."""
    for x in tm.subterms(t):
        if x.op in ("index", "slice_from"):
            idx = x.a[1]
            if idx.op == "num":
                return x.a[0], False, idx.a[0], x.op
            if idx.op == "add" and idx.a[1].op == "num" and idx.a[0].op == "ite":
                return x.a[0], True, idx.a[1].a[0], x.op
            if idx.op == "ite" and idx.a[1].op == "num" and idx.a[2].op == "num":
                return x.a[0], True, 0, x.op
    return None


def run(ctx, rep):
    rep.rule = ("Y1 per record type: the comma-separated cell sequence of the Display template (tag literals, fields, "
                "precisions, values list, comment suffix) coincides with the cell each field is read from in the value "
                "graph of FromStr; enum cells: FromStr evaluated on every variant name gives that variant and Display prints "
                "the Debug name; Y2 the container writers read every field their parsers fill")
    rep.explanation = ("Writer/reader agreement is a property of two tables (what is printed where / what is read from "
                       "where); both are extracted from the code and compared, for every record kind, tag and optional field.")
    rep.assumptions = ["std parsing/printing of numbers (value equality up to printed precision not decided)",
                       "re-normalisation of completed components is numeric (C05)"]
    lib = ctx.lib
    T = fmtdoc.Templates(lib)
    n_cells = 0
    for ty, (tag, opt_id, prec) in RECORDS.items():
        try:
            wb, selfv, doc, raw = display_doc(ctx, T, ty)
            rb = ctx.find_impl_method(lib, "FromStr", ty, "from_str")
        except AnchorMissing as ex:
            rep.violated("C18/Y1/%s/anchor" % ty, "Display and FromStr of %s exist" % ty, why=str(ex))
            continue
        cells, suffix = writer_cells(doc, selfv)
        ev, r, args = ctx.eval_entry("lib", rb)
        okv, gates = api.ok_value(r)
        where = loc_of(wb)
        if okv is None or okv.op != "adt":
            rep.underivable("C18/Y1/%s/reader" % ty, "FromStr of %s returns Ok(record)" % ty, construct=loc_of(rb))
            continue
        fields = tm.field_names(okv.a[0], 0)
        wpos = {}
        for i, c in enumerate(cells):
            if c[0] == "field" and c[1]:
                wpos[c[1]] = i
            if c[0] == "values":
                wpos["values"] = i
        # tag literal
        if tag is not None:
            key = "C18/Y1/%s/tag" % ty
            tagpos = [i for i, c in enumerate(cells) if c[0] == "tag"]
            tagtxt = [cells[i][1] for i in tagpos]
            if tagtxt == [tag]:
                # the reader must require that literal in the same cell
                want_cell = tagpos[0]
                req = required_literal(ev, gates, want_cell, opt_id)
                if req == tag:
                    rep.discharged(key, "%s lines carry the tag %s in cell %d and the reader requires it there" % (ty, tag, want_cell))
                else:
                    rep.violated(key, "the reader of %s accepts exactly the tag the writer prints" % ty, construct=loc_of(rb),
                                 why="writer prints %s in cell %d; reader requires %r there" % (tag, want_cell, req))
            else:
                rep.violated(key, "%s is written with the tag %s" % (ty, tag), construct=where, why="tags printed: %s" % tagtxt)
        for f, val in zip(fields, okv.a[2:]):
            n_cells += 1
            key = "C18/Y1/%s/%s" % (ty, f)
            if (ty, f) in DERIVED:
                rep.discharged(key, "admitted asymmetry: %s" % DERIVED[(ty, f)], nontrivial=False)
                continue
            if f == "comment":
                ok_w = any(s[0] == "alt" and any(x[0] == "lit" and x[1] == " # " for x in s[3] + s[2]) for s in suffix)
                ok_r = any(x.op == "splitn" and x.a[0].op == "num" and x.a[0].a[0] == 2 and x.a[2].op in ("char", "str")
                           and x.a[2].a[0] == "#" for x in tm.subterms(val))
                if ok_w and ok_r:
                    rep.discharged(key, "comment written as ' # text' when non-empty and read back after the first '#'")
                else:
                    rep.violated(key, "comments survive the round trip", construct=where,
                                 why="writer suffix ok=%s, reader split at first '#' ok=%s" % (ok_w, ok_r))
                continue
            if f not in wpos:
                rep.violated(key, "field %s of %s is written" % (f, ty), construct=where,
                             why="no cell of the Display template prints self.%s" % f)
                continue
            fi = find_index(val)
            if fi is None:
                rep.underivable(key, "cell read into %s.%s is identifiable" % (ty, f), construct=loc_of(rb),
                                why=tm.show(val, 4)[:200])
                continue
            items, rel, off, opk = fi
            rpos = off + (1 if rel else 0)       # with an explicit id the base index is 1
            if f == "id" and rel:
                rpos = 0
            if rpos == wpos[f]:
                c = cells[wpos[f]]
                p_ok = True
                if f == "values":
                    p_ok = c[1] == ", " and c[2] == prec
                elif c[3] in ("f32", "f64"):
                    p_ok = c[2] == prec
                if p_ok:
                    rep.discharged(key, "%s.%s: written in cell %d, read from cell %d" % (ty, f, wpos[f], rpos))
                else:
                    rep.violated(key, "%s.%s is printed with %d decimals" % (ty, f, prec), construct=where,
                                 why="cell %s" % (c,))
            else:
                rep.violated(key, "%s.%s is read from the cell it is written to" % (ty, f), construct=where,
                             why="written in cell %d, read from cell %d" % (wpos[f], rpos))
    # Meta
    try:
        wb, selfv, doc, raw = display_doc(ctx, T, "Meta")
        flat = [s for s in doc]
        lits = "".join(s[1] for s in flat if s[0] == "lit")
        holes = [s[1] for s in flat if s[0] == "hole"]
        names = [h.value.a[3] for h in holes if h.value.op == "proj"]
        if lits == "#META : " and names == ["key", "value"]:
            rep.discharged("C18/Y1/Meta", "metadata written as '#META key: value' (reader splits at the first ':')")
        else:
            rep.violated("C18/Y1/Meta", "metadata written as '#META key: value'", construct=loc_of(wb), why="%r %s" % (lits, names))
    except AnchorMissing as ex:
        rep.violated("C18/Y1/Meta", "Display of Meta exists", why=str(ex))
    # enums
    n_enum = 0
    for en in ENUMS:
        names = tm.ADT_NAMES.get(en)
        if not names:
            rep.violated("C18/Y1/enum/%s" % en, "enum %s exists" % en)
            continue
        try:
            rb = ctx.find_impl_method(lib, "FromStr", en, "from_str")
            wb = ctx.find_impl_method(lib, "Display", en, "fmt")
        except AnchorMissing as ex:
            rep.violated("C18/Y1/enum/%s" % en, "Display and FromStr of %s exist" % en, why=str(ex))
            continue
        for vi, (vn, _f) in sorted(names.items()):
            n_enum += 1
            ev, r, _a = ctx.eval_entry("lib", rb, args=[tm.string(vn)])
            key = "C18/Y1/enum/%s/%s" % (en, vn)
            want = tm.ok(tm.adt(en, vi))
            if r is want:
                rep.discharged(key, "'%s' parses to %s::%s" % (vn, en, vn), nontrivial=False)
            else:
                rep.violated(key, "the printed name of every %s variant is accepted by its parser" % en, construct=loc_of(rb),
                             why="'%s' parses to %s" % (vn, tm.show(r, 3)[:100]))
        ev = ctx.world.ev("lib")
        cell = ev.new_cell(tm.mk("fmtbuf"))
        sv = tm.sym("in:self")
        ev.call_body(ctx.lib, wb, [sv, Place(cell).ref()])
        buf = ev.store.cells[cell]
        dbg = [t for t in tm.subterms(buf) if t.op == "fmtarg"]
        key = "C18/Y1/enum/%s/display" % en
        if len(dbg) == 1 and dbg[0].a[0] == "Debug" and dbg[0].a[2] is sv:
            rep.discharged(key, "%s is displayed with its variant name" % en, nontrivial=False)
        else:
            rep.violated(key, "%s is displayed with its variant name" % en, construct=loc_of(wb), why=tm.show(buf, 4)[:200])
    # Y2 containers
    for ty, flds in (("Components", ("meta", "data", "needs")), ("Factors", ("wmeta", "wdata"))):
        wb, selfv, doc, raw = display_doc(ctx, T, ty)
        used = set()
        for t in tm.subterms(raw):
            if t.op == "proj" and t.a[0] is selfv:
                used.add(t.a[3])
        for f in flds:
            key = "C18/Y2/%s/%s" % (ty, f)
            if f in used:
                rep.discharged(key, "the text form of %s includes its %s" % (ty, f))
            else:
                rep.violated(key, "the text written for %s contains everything its parser reads (%s)" % (ty, f),
                             construct=loc_of(wb), why="Display for %s never reads self.%s" % (ty, f))
    # Y5 automatically completed components re-normalise to themselves (decided by the C05 pack: P3 formula,
    # same-system sums, skip-when-zero => P4 by lemma L2); re-stated here because C18 quantifies over saved files
    from . import c05
    from .common import Report
    sub = Report("C05")
    c05.run(ctx, sub)
    idem = [o for o in sub.obligations if o.key.endswith("/idempotent")]
    if len(idem) < 2:
        rep.violated("C18/Y5/anchor", "completion of ambient and solar production is analysable", why="%d completion families" % len(idem))
    for o in idem:
        k = "C18/Y5/" + o.key.split("/")[2]
        if o.status == "discharged":
            rep.discharged(k, "a saved file whose %s production was completed automatically is not completed again when read back" % o.key.split("/")[2],
                           derivation=o.derivation)
        else:
            rep.violated(k, "automatically completed components re-normalise to themselves", construct=o.construct, why=o.why)
    # Y5' every component line of a saved file is read back as a component (the reader appends one per line and takes
    # none away, whatever its comment): C05/P1 re-stated
    p1 = [o for o in sub.obligations if o.key.startswith("C05/P1/")]
    if len(p1) < 3:
        rep.violated("C18/Y5/read/anchor", "the reader of components is analysable", why="%d C05/P1 obligations" % len(p1))
    for o in p1:
        k = "C18/Y5/read/" + o.key[len("C05/P1/"):]
        if o.status == "discharged":
            rep.discharged(k, "every component line written is read back: " + o.clause, nontrivial=False)
        else:
            rep.violated(k, "every component line of a saved file is read back as a component", construct=o.construct, why=o.why)
    # Y6 the one field the text format does not carry, EAux.service, is re-derived on reading: that is only a
    # round trip if the re-derivation treats re-read auxiliaries like declared ones (C06/A0: every Aux of the
    # system takes part whatever its comment, values or service)
    from . import c06
    sub6 = Report("C06")
    c06.run(ctx, sub6)
    a0 = [o for o in sub6.obligations if o.key.startswith("C06/A0/")]
    if not a0:
        rep.violated("C18/Y6/anchor", "the reassignment of auxiliary energy is analysable", why="no C06/A0 obligation")
    for o in a0:
        if o.status == "discharged":
            rep.discharged("C18/Y6/aux-service", "auxiliaries read back from a saved file are reassigned like declared ones (service re-derived, comment ignored)")
        else:
            rep.violated("C18/Y6/aux-service", "the service of saved auxiliary components is re-derived when the file is read back",
                         construct=o.construct, why=o.why)
    # Y4 what --oc saves is what was evaluated: the effective k_exp / area are written to the metadata without a
    # precision cut and on every path, and the value written by --oc is the evaluated components (C19/Q3)
    from . import c19
    sub19 = Report("C19")
    c19.run(ctx, sub19)
    q3 = [o for o in sub19.obligations if o.key.startswith("C19/Q3")]
    if len(q3) < 5:
        rep.violated("C18/Y4/anchor", "the command-line tool's saving of components is analysable", why="%d C19/Q3 obligations" % len(q3))
    for o in q3:
        k = "C18/Y4/" + "/".join(o.key.split("/")[2:])
        if o.status == "discharged":
            rep.discharged(k, "saved components reproduce the evaluation: " + o.clause, nontrivial=False)
        else:
            rep.violated(k, "a building evaluated from the files saved with --oc gives the same results as the original evaluation",
                         construct=o.construct, why=o.why)
    # Y7 the factor file saved by --of (simplified for the building) can be read back and prepared again (C08/S4)
    from . import c08
    sub8 = Report("C08")
    c08.run(ctx, sub8)
    s4 = [o for o in sub8.obligations if o.key.startswith("C08/S4/")]
    if len(s4) < 12:
        rep.violated("C18/Y7/anchor", "simplification followed by preparation is analysable", why="%d C08/S4 obligations" % len(s4))
    bad8 = [o for o in s4 if o.status != "discharged"]
    if bad8:
        for o in bad8[:3]:
            rep.violated("C18/Y7/" + o.key.split("/")[2], "the factors saved with --of can be read back for every building",
                         construct=o.construct, why=o.why)
    else:
        rep.discharged("C18/Y7", "the simplified factor set saved by --of is accepted again by the reader's preparation, for every single-carrier building",
                       derivation="%d cases (C08/S4)" % len(s4))
    rep.analysed = {"record_fields": n_cells, "enum_variants": n_enum}
    rep.floor("record-fields", n_cells, 25)
    rep.floor("enum-variants", n_enum, 35)


def required_literal(ev, gates, cell, opt_id):
    """Which string literal the reader requires in `cell` (explicit-id layout)."""
    cands = set()
    for g in gates:
        for t in tm.subterms(g):
            if t.op == "eq":
                a, b = t.a
                lit, other = (a, b) if a.op == "str" else (b, a)
                if lit.op == "str" and other.op == "index":
                    idx = other.a[1]
                    pos = None
                    if idx.op == "num":
                        pos = idx.a[0]
                    elif idx.op == "ite" and idx.a[1].op == "num":
                        pos = idx.a[1].a[0]          # base index with an explicit id
                    elif idx.op == "add" and idx.a[0].op == "ite" and idx.a[1].op == "num":
                        pos = idx.a[0].a[1].a[0] + idx.a[1].a[0]
                    if pos == cell:
                        cands.add((lit.a[0], t))
    req = []
    for lit, t in cands:
        if unsat_over_lengths(ev, list(gates) + [tm.not_(t)]):
            req.append(lit)
    if len(req) == 1:
        return req[0]
    return sorted(req) if req else None


def small_int(t):
    """t as a small integer expression: int, or (cond, a, b) for ite / ite + const."""
    if t.op == "num" and isinstance(t.a[0], int):
        return t.a[0]
    if t.op == "ite" and t.a[1].op == "num" and t.a[2].op == "num":
        return (t.a[0], t.a[1].a[0], t.a[2].a[0])
    if t.op == "add" and t.a[1].op == "num":
        x = small_int(t.a[0])
        if isinstance(x, int):
            return x + t.a[1].a[0]
        if isinstance(x, tuple):
            return (x[0], x[1] + t.a[1].a[0], x[2] + t.a[1].a[0])
    return None


def unsat_over_lengths(ev, forms):
    """Unsatisfiability with a finite case split over the values of the length terms that are
    compared with small integer expressions (beyond the largest constant all values behave alike)."""
    from .c16 import structural_min_len
    atoms = []
    lens = []
    for f in forms:
        for t in tm.subterms(f):
            if t.op in ("lt", "le", "eq") and len(t.a) == 2:
                a, b = t.a
                if b.op == "len" and small_int(a) is not None:
                    atoms.append((t, b, "L", small_int(a)))
                elif a.op == "len" and small_int(b) is not None:
                    atoms.append((t, a, "R", small_int(b)))
    for _t, L, _s, _k in atoms:
        if L not in lens:
            lens.append(L)
    lens = lens[:4]

    def ks(k):
        return [k] if isinstance(k, int) else [k[1], k[2]]
    consts = dict((L, sorted(set(x for _t, l2, _s, k in atoms if l2 is L for x in ks(k)))) for L in lens)

    def truth(op, side, k, n):
        if side == "L":
            return {"lt": k < n, "le": k <= n, "eq": k == n}[op]
        return {"lt": n < k, "le": n <= k, "eq": n == k}[op]

    def rec(i, sub):
        if i == len(lens):
            fs = [tm.subst(f, sub) for f in forms] if sub else forms
            saved = ev.pc
            ev.pc = []
            ev._budget = 6000
            try:
                return ev.sat(fs, {}) is False
            finally:
                ev.pc = saved
        L = lens[i]
        lo = structural_min_len(L)
        hi = (max(consts[L]) + 1) if consts[L] else lo
        for n in range(lo, max(hi, lo) + 1):
            s2 = dict(sub)
            for t, l2, side, k in atoms:
                if l2 is not L:
                    continue
                if isinstance(k, int):
                    s2[t] = tm.boolean(truth(t.op, side, k, n))
                else:
                    s2[t] = tm.ite(k[0], tm.boolean(truth(t.op, side, k[1], n)), tm.boolean(truth(t.op, side, k[2], n)))
            if not rec(i + 1, s2):
                return False
        return True
    return rec(0, {})
