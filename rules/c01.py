"""C01 Energy is conserved per carrier and time step (DESIGN §5/C01).

Decided on the value graph of `energy_performance` (12 carriers x 2 load-matching modes):
O1-O3 flow identities per step, O4 the same on annual sums, O5 non-negativity, O6/O7 bounds,
O8 per-source split, O9 the accumulators partition the component classes.
"""
from epbd import term as tm, alg, order
from epbd.sym import _filters_of
from . import epmodel
from .epmodel import get, emap_items
from .common import loc_of, AnchorMissing

STEP_ANNUAL = [("prod", "t", "an"), ("prod", "epus_t", "epus_an"), ("exp", "t", "an"),
               ("exp", "grid_t", "grid_an"), ("exp", "nepus_t", "nepus_an"),
               ("used", "epus_t", "epus_an"), ("used", "nepus_t", "nepus_an"),
               ("used", "cgnus_t", "cgnus_an"), ("del", "grid_t", "grid_an"),
               ("del", "onst_t", "onst_an"), ("del", "cgn_t", "cgn_an")]


def out_variant_index():
    d = tm.ADT_NAMES.get("Energy", {})
    for i, (n, _f) in d.items():
        if n == "Out":
            return i
    raise AnchorMissing("Energy::Out")


def make_base_nonneg(e):
    """A1: per-step sums of declared consumption / production values are non-negative; output
    energy (Energy::Out) may be negative, so a sum is admitted only if its filters exclude it."""
    out_idx = out_variant_index()
    cache = {}

    def base(atom):
        t = atom.term
        if t is None:
            return atom.key == ("nsteps",)
        if t.id in cache:
            return cache[t.id]
        r = False
        if t.op == "vsumover":
            r = values_sum_excludes_out(e, t, out_idx)
        cache[t.id] = r
        return r
    return base


def values_sum_excludes_out(e, t, out_idx):
    it, lam = t.a[0], t.a[1]
    x = tm.fresh("c")
    body = tm.apply_lam(lam, [x])
    if not only_values_leaves(body, x):
        return False
    ev = e.ev
    saved = ev.pc
    ev.pc = []
    try:
        for f in _filters_of(it):
            ev.assume(tm.apply_lam(f, [x]))
        return ev.decide(tm.isvar(x, "Energy", out_idx)) is False
    finally:
        ev.pc = saved


def only_values_leaves(body, x):
    if body.op == "ite":
        return only_values_leaves(body.a[1], x) and only_values_leaves(body.a[2], x)
    if body.op == "proj" and body.a[3] == "values":
        inner = body.a[0]
        return inner.op == "proj" and inner.a[0] is x
    return False


def summands(v):
    """A vector term as a list of (iterator, lambda) component sums, or None."""
    if v.op == "vsumover":
        return [(v.a[0], v.a[1])]
    if v.op == "vop" and v.a[0] == "add":
        a, b = summands(v.a[1]), summands(v.a[2])
        if a is None or b is None:
            return None
        return a + b
    if v.op == "rep" and v.a[0] is tm.ZERO:
        return []
    return None


def gate_of(it, x):
    return tm.and_(*[tm.apply_lam(f, [x]) for f in _filters_of(it)])


def component_classes(carrier_idx):
    """Concrete-shaped symbolic components of every class (variant x service / source)."""
    names = tm.ADT_NAMES
    out = []
    nserv = len(names["Service"])
    nsrc = len(names["ProdSource"])
    ncar = len(names["Carrier"])

    def rec(path, **kw):
        fs = tm.field_names(path, 0)
        return tm.adt(path, 0, *[kw.get(f, tm.sym("cls:%s.%s" % (path, f))) for f in fs])
    ev_idx = dict((n, i) for i, (n, _f) in names["Energy"].items())
    for s in range(nserv):
        sv = tm.adt("Service", s)
        out.append(("Used/%s" % names["Service"][s][0],
                    tm.adt("Energy", ev_idx["Used"], rec("EUsed", service=sv, carrier=tm.adt("Carrier", carrier_idx)))))
        out.append(("Aux/%s" % names["Service"][s][0],
                    tm.adt("Energy", ev_idx["Aux"], rec("EAux", service=sv))))
    for j in range(nsrc):
        out.append(("Prod/%s" % names["ProdSource"][j][0],
                    tm.adt("Energy", ev_idx["Prod"], rec("EProd", source=tm.adt("ProdSource", j)))))
    return out


def run(ctx, rep):
    rep.rule = ("value graph of energy_performance; flow identities by equality of polynomial normal "
                "forms over per-step atoms (real arithmetic), bounds by rules R1,R2,R5,R6,R7 + case "
                "split on presence gates; accumulator gates enumerated over component classes")
    rep.explanation = ("For each of the 12 carrier instances and both load-matching modes the per-step "
                       "vectors of the returned BalanceCarrier are lifted point-wise and the identities "
                       "prod = used+exp, exp = nEPB+grid, use = used_prod+delivered are decided as normal-"
                       "form equalities for every input; non-negativity and the min() bounds are derived "
                       "from A1 with the fixed rule set; the four accumulators are shown to count every "
                       "declared component class exactly once.")
    rep.assumptions = ["A1 non-negative consumption/production values (output energy may be negative)",
                       "A2 identities/inequalities in real arithmetic (f32 rounding outside the claim)",
                       "A3 rustc front end; A4 std/num models (vec ops, HashMap, iterator adaptors)"]
    n_inst = 0
    n_class_checks = 0
    for lm in (False, True):
        e = epmodel.ep(ctx, lm)
        where = loc_of(e.body)
        A = alg.Algebra()
        P = order.Prover(A, make_base_nonneg(e))
        for (ci, cname, pres, bc) in e.carriers():
            if pres is tm.FALSE:
                continue
            n_inst += 1
            tag = "%s/lm=%s" % (cname, int(lm))

            def pw(*path):
                return A.pw(get(bc, *path))
            try:
                prod_t, epus_t, exp_t = pw("prod", "t"), pw("prod", "epus_t"), pw("exp", "t")
                nep_t, grid_t = pw("exp", "nepus_t"), pw("exp", "grid_t")
                use_t, del_t, nepuse_t = pw("used", "epus_t"), pw("del", "grid_t"), pw("used", "nepus_t")
            except alg.NotScalar as ex:
                rep.underivable("C01/shape/%s" % tag, "per-step flows are point-wise vectors",
                                construct=where, why=str(ex))
                continue
            eqs = [("O1", "prod.t = prod.epus_t + exp.t", prod_t, alg.padd(epus_t, exp_t)),
                   ("O2", "exp.t = exp.nepus_t + exp.grid_t", exp_t, alg.padd(nep_t, grid_t)),
                   ("O3", "used.epus_t = prod.epus_t + del.grid_t", use_t, alg.padd(epus_t, del_t))]
            for oid, clause, l, r in eqs:
                key = "C01/%s/%s" % (oid, tag)
                if l == r:
                    rep.discharged(key, clause, derivation="nf(lhs) == nf(rhs) == %s" % A.show(l, 2)[:300])
                else:
                    rep.violated(key, clause, construct=where,
                                 why="normal forms differ: lhs - rhs = %s" % A.show(alg.padd(l, r, -1), 3)[:600])
            for grp, ft, fan in STEP_ANNUAL:
                key = "C01/O4/%s.%s/%s" % (grp, fan, tag)
                clause = "%s.%s = Σ_t %s.%s" % (grp, fan, grp, ft)
                l = A.scalar(get(bc, grp, fan))
                r = A.sumt(pw(grp, ft))
                if l == r:
                    rep.discharged(key, clause, nontrivial=False)
                else:
                    rep.violated(key, clause, construct=where,
                                 why="annual value is not the plain sum of the per-step vector: %s vs %s"
                                     % (A.show(l, 2)[:300], A.show(r, 2)[:300]))
            ineqs = [("O5", "prod.epus_t >= 0", epus_t, None), ("O5", "exp.t >= 0", exp_t, None),
                     ("O5", "exp.nepus_t >= 0", nep_t, None), ("O5", "exp.grid_t >= 0", grid_t, None),
                     ("O5", "del.grid_t >= 0", del_t, None),
                     ("O6", "prod.epus_t <= used.epus_t", epus_t, use_t),
                     ("O6", "prod.epus_t <= prod.t", epus_t, prod_t),
                     ("O7", "exp.nepus_t <= used.nepus_t", nep_t, nepuse_t)]
            for oid, clause, a, b in ineqs:
                key = "C01/%s/%s/%s" % (oid, clause.replace(" ", ""), tag)
                P.steps = 0
                P.used_rules = set()
                ok = P.nonneg(a) if b is None else P.le(a, b)
                if ok:
                    rep.discharged(key, clause, derivation="rules %s, %d steps" % (sorted(P.used_rules), P.steps))
                else:
                    rep.underivable(key, clause, construct=where,
                                    why="not derivable with R1,R2,R5,R6,R7 from A1: %s"
                                        % A.show(a if b is None else alg.padd(b, a, -1), 3)[:600])
            # O8 per source
            try:
                by_src = emap_items(get(bc, "prod", "by_src_t"))
                epus_src = dict((n, (p, v)) for n, p, v in emap_items(get(bc, "prod", "epus_by_src_t")))
                exp_src = dict((n, (p, v)) for n, p, v in emap_items(get(bc, "exp", "by_src_t")))
            except AnchorMissing as ex:
                rep.underivable("C01/O8/shape/%s" % tag, "per-source maps are finite maps over ProdSource",
                                construct=where, why=str(ex))
                by_src = []
            for sname, sp, sv in by_src:
                if sp is tm.FALSE:
                    continue
                key = "C01/O8/%s/%s" % (sname, tag)
                ep_, ev_ = epus_src.get(sname, (tm.FALSE, None))
                xp_, xv_ = exp_src.get(sname, (tm.FALSE, None))
                if ev_ is None or xv_ is None or ep_ is tm.FALSE or xp_ is tm.FALSE:
                    rep.violated(key + "/present", "source %s has used and exported parts" % sname, construct=where,
                                 why="a produced source is missing from prod.epus_by_src_t or exp.by_src_t")
                    continue
                l = A.pw(sv)
                r = alg.padd(A.pw(ev_), A.pw(xv_))
                if l == r:
                    rep.discharged(key + "/split", "prod.by_src_t[j] = prod.epus_by_src_t[j] + exp.by_src_t[j]")
                else:
                    rep.violated(key + "/split", "prod.by_src_t[j] = prod.epus_by_src_t[j] + exp.by_src_t[j]",
                                 construct=where, why="lhs - rhs = %s" % A.show(alg.padd(l, r, -1), 3)[:500])
                P.steps = 0
                if P.nonneg(A.pw(ev_)):
                    rep.discharged(key + "/used>=0", "prod.epus_by_src_t[j] >= 0")
                else:
                    rep.underivable(key + "/used>=0", "prod.epus_by_src_t[j] >= 0", construct=where,
                                    why=A.show(A.pw(ev_), 3)[:400])
            # O9 partition of component classes by the accumulators
            accs = [("used.epus_t", get(bc, "used", "epus_t")), ("used.nepus_t", get(bc, "used", "nepus_t")),
                    ("used.cgnus_t", get(bc, "used", "cgnus_t"))]
            for sname, sp, sv in by_src:
                if sp is not tm.FALSE:
                    accs.append(("prod.by_src_t[%s]" % sname, sv))
            parts = []
            shape_ok = True
            for an, av in accs:
                s = summands(av)
                if s is None:
                    rep.underivable("C01/O9/shape/%s/%s" % (an, tag),
                                    "%s is a sum of component values over a class gate" % an,
                                    construct=where, why="not a Σ over components: %s" % tm.show(av, 3)[:300])
                    shape_ok = False
                else:
                    parts.append((an, s))
            if not shape_ok:
                continue
            bcr_pres_filters = None
            for cls_name, comp in component_classes(ci):
                hits = []
                for an, s in parts:
                    for it, lam in s:
                        g = gate_of(it, comp)
                        if g is tm.TRUE:
                            hits.append(an)
                        elif g is not tm.FALSE:
                            hits.append("?%s" % an)
                n_class_checks += 1
                key = "C01/O9/%s/%s" % (cls_name, tag)
                member = carrier_member(e, comp, ci)
                if member is None:
                    rep.underivable(key, "class membership decidable", construct=where)
                    continue
                if any(h.startswith("?") for h in hits):
                    rep.underivable(key, "accumulator gate decides on the class", construct=where,
                                    why="gate does not reduce to a constant for class %s: %s" % (cls_name, hits))
                elif member and len(hits) != 1:
                    rep.violated(key, "a declared %s component of carrier %s is counted exactly once" % (cls_name, cname),
                                 construct=where, why="counted by %s" % (hits or "no accumulator"))
                elif (not member) and hits:
                    rep.violated(key, "a %s component that does not belong to carrier %s is not counted" % (cls_name, cname),
                                 construct=where, why="counted by %s" % hits)
                else:
                    rep.discharged(key, "%s of carrier %s counted by exactly one accumulator" % (cls_name, cname)
                                   if member else "%s not in carrier %s: not counted" % (cls_name, cname),
                                   nontrivial=member)
    # the auxiliary electricity that enters these flows is produced by the normalisation of components as a share
    # output_s / total output of the declared auxiliaries: the flows are finite only if that division is guarded by
    # `total output > 0` on the divisor itself (decided by the C06 pack, re-stated here)
    from . import c06
    from .common import Report
    sub6 = Report("C06")
    try:
        c06.run(ctx, sub6)
    except Exception as ex:        # noqa
        rep.underivable("C01/aux/anchor", "the reassignment of auxiliary energy is analysable", why=str(ex)[:200])
    for o in sub6.obligations:
        if o.key == "C06/A3/guard" or (o.key.startswith("C06/A3/") and o.key.endswith("/share")):
            k = "C01/aux/" + o.key[len("C06/A3/"):]
            if o.status == "discharged":
                rep.discharged(k, "auxiliary EPB electricity is a guarded share of the declared auxiliaries: " + o.clause, nontrivial=False)
            else:
                rep.violated(k, "every flow is finite and non-negative: auxiliary electricity is a share of the declared value, "
                             "divided only by a positive total output", construct=o.construct, why=o.why)
    rep.analysed = {"entry": "energy_performance", "carrier_instances": n_inst,
                    "class_gate_evaluations": n_class_checks}
    rep.floor("carrier-instances", n_inst, 24)


def carrier_member(e, comp, ci):
    """Does this component class belong to carrier ci (by the crate's own accessor semantics)?
    Used: its carrier field; Aux: ELECTRICIDAD; Prod: the carrier its source converts to."""
    names = tm.ADT_NAMES
    vname = names["Energy"][comp.a[1]][0]
    rec = comp.a[2]
    if vname == "Used":
        return True        # constructed with carrier = ci
    if vname == "Aux":
        return names["Carrier"][ci][0] == "ELECTRICIDAD"
    if vname == "Prod":
        src = tm.getf(rec, "EProd", "source")
        sname = names["ProdSource"][src.a[1]][0]
        want = {"EL_INSITU": "ELECTRICIDAD", "EL_COGEN": "ELECTRICIDAD", "TERMOSOLAR": "TERMOSOLAR",
                "EAMBIENTE": "EAMBIENTE"}.get(sname)
        if want is None:
            return None
        return names["Carrier"][ci][0] == want
    return None
