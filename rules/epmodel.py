"""EP: the value graph of `energy_performance` (DESIGN §5 notation), shared by C01–C04, C09,
C11–C13.  The public entry point is evaluated once per value of `load_matching`; private
helpers are reached by inlining, so nothing here names them."""
from epbd import api, term as tm
from .common import AnchorMissing

CARRIERS = None


class EP(object):
    def __init__(self, ctx, lm):
        self.ctx = ctx
        self.lm = lm
        body = ctx.find_public_fn(ctx.lib, "energy_performance")
        self.body = body
        lit = {}
        if lm is not None:
            lit["load_matching"] = tm.boolean(lm)
        self.ev, self.result, self.args = ctx.eval_entry("lib", body, literal=lit)
        self.params = {}
        for p, a in zip(body["params"], self.args):
            if p["pat"] is not None and p["pat"]["k"] == "bind":
                self.params[p["pat"]["name"]] = a
        self.ok, self.ok_gates = api.ok_value(self.result)
        if self.ok is None or self.ok.op != "adt":
            raise AnchorMissing("energy_performance -> Ok(EnergyPerformance{..})")
        self.adt = self.ok.a[0]

    def field(self, name):
        return tm.getf(self.ok, self.adt, name)

    def carriers(self):
        """[(variant index, variant name, presence gate, BalanceCarrier term)]"""
        bcr = self.field("balance_cr")
        if bcr.op != "emap":
            raise AnchorMissing("EnergyPerformance.balance_cr as a finite map over Carrier")
        out = []
        n = (len(bcr.a) - 1) // 2
        for i in range(n):
            out.append((i, tm.variant_name(bcr.a[0], i), bcr.a[1 + 2 * i], bcr.a[2 + 2 * i]))
        return out


def get(x, *path):
    """Follow struct field names through nested ADT terms (using the ADT table)."""
    for name in path:
        if x.op != "adt":
            raise AnchorMissing("field %s of non-record %s" % (name, tm.show(x, 2)))
        x = tm.getf(x, x.a[0], name)
    return x


def emap_items(m):
    """[(variant name, presence, value)] of a finite enum-keyed map term."""
    if m.op != "emap":
        raise AnchorMissing("finite map expected, got %s" % m.op)
    out = []
    n = (len(m.a) - 1) // 2
    for i in range(n):
        out.append((tm.variant_name(m.a[0], i), m.a[1 + 2 * i], m.a[2 + 2 * i]))
    return out


def ep(ctx, lm):
    return ctx.memo(("EP", lm), lambda: EP(ctx, lm))


_GARB = {}


def _has_garbage(v):
    r = _GARB.get(v.id)
    if r is None:
        r = any(x is tm.GARBAGE for x in tm.subterms(v))
        _GARB[v.id] = r
    return r


def leaves(x, path=()):
    """(path tuple, leaf term, presence gates) for every non-record leaf of a nested record /
    finite-map term.  Map entries add their key name to the path and their presence to gates."""
    out = []

    def walk(t, p, gates):
        if t.op == "adt" and len(t.a) > 2:
            names = tm.field_names(t.a[0], t.a[1]) or [str(i) for i in range(len(t.a) - 2)]
            for n, f in zip(names, t.a[2:]):
                walk(f, p + (n,), gates)
        elif t.op == "emap":
            n = (len(t.a) - 1) // 2
            for i in range(n):
                pres, v = t.a[1 + 2 * i], t.a[2 + 2 * i]
                if pres is tm.FALSE or v is tm.GARBAGE or (isinstance(v, tm.T) and v.op != "emap"
                                                           and _has_garbage(v)):
                    continue          # never present (a value no path can produce, or derived from one, is garbage)
                walk(v, p + ("[%s]" % tm.variant_name(t.a[0], i),), gates + (pres,))
        elif t.op == "tuple" and len(t.a) > 0:
            for i, f in enumerate(t.a):
                walk(f, p + (str(i),), gates)
        else:
            out.append((p, t, gates))
    walk(x, path, ())
    return out


def pstr(p):
    return ".".join(p).replace(".[", "[")
