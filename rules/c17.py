"""C17 Every output format is well formed and reports the computed result (DESIGN §5/C17)."""
import re

from epbd import term as tm
from . import fmtdoc
from .common import loc_of, AnchorMissing, short_loc

NUMERIC = {"f32", "f64", "i32", "i64", "u32", "u64", "usize", "isize", "u8", "i8", "u16", "i16"}

# plain report: label that precedes a hole -> (path inside the EnergyPerformance value, precision)
PLAIN = [
    ("Area_ref = ", ("arearef",), 2), ("k_exp = ", ("k_exp",), 2),
    ("ren = ", ("balance_m2", "we", "b", "ren"), 1), ("nren = ", ("balance_m2", "we", "b", "nren"), 1),
    ("tot = ", ("balance_m2", "we", "b", "ren+nren"), 1),
    ("E_CO2 [kg_CO2e/m2.an]: ", ("balance_m2", "we", "b", "co2"), 2),
    ("RER = ", ("rer",), 2), ("RER_nrb = ", ("rer_nrb",), 2),
    ("Consumida en usos EPB: ", ("balance_m2", "used", "epus"), 2),
    ("Consumida en usos no EPB: ", ("balance_m2", "used", "nepus"), 2),
    ("Consumida en cogeneración: ", ("balance_m2", "used", "cgnus"), 2),
    ("Generada: ", ("balance_m2", "prod", "an"), 2), ("Suministrada ", ("balance_m2", "del", "an"), 2),
    ("- de red: ", ("balance_m2", "del", "grid"), 2), ("- in situ: ", ("balance_m2", "del", "onst"), 2),
    ("Exportada: ", ("balance_m2", "exp", "an"), 2), ("- a la red: ", ("balance_m2", "exp", "grid"), 2),
    ("- a usos no EPB: ", ("balance_m2", "exp", "nepus"), 2),
]


def path_term(self_t, path):
    t = self_t
    for p in path:
        if p == "ren+nren":
            return tm.add(tm.proj(t, 0, 0, "ren"), tm.proj(t, 0, 1, "nren"))
        adt = None
        for name, d in tm.ADT_NAMES.items():
            if 0 in d and p in d[0][1]:
                pass
        t = proj_by_name(t, p)
    return t


def proj_by_name(t, name):
    # field index is looked up from the ADT whose field list contains the name at the right place
    cands = []
    for adt, d in tm.ADT_NAMES.items():
        if 0 in d and name in d[0][1] and len(d) == 1:
            cands.append((adt, d[0][1].index(name)))
    if t.op == "proj" or t.op == "sym":
        # choose by the parent field's declared type when unambiguous, else first candidate
        pass
    parent = _type_of.get(t)
    for adt, i in cands:
        if parent is None or parent == adt:
            r = tm.proj(t, 0, i, name)
            ft = _field_type.get((adt, name))
            if ft:
                _type_of[r] = ft
            return r
    raise AnchorMissing("field %s" % name)


_type_of = {}
_field_type = {}


def load_field_types(ctx):
    for a in ctx.lib.facts["adts"]:
        if a["kind"] != "struct":
            continue
        short = a["path"].split("::")[-1]
        for f in a["variants"][0]["fields"]:
            t = ctx.lib.types[f["ty"]]
            if t["k"] == "adt" and t.get("local"):
                _field_type[(short, f["name"])] = t["path"].split("::")[-1]


def make_classifier(ctx):
    enums = {}
    for a in ctx.lib.facts["adts"]:
        if a["kind"] == "enum" and not any(v["fields"] for v in a["variants"]):
            enums[a["def"]] = [v["name"] for v in a["variants"]]

    def classify(h):
        k = h.tykey
        if k in NUMERIC:
            return True
        if k in enums:
            bad = [n for n in enums[k] if not re.match(r"^[A-Za-z0-9_]+$", n)]
            return True if not bad else "variant name %s is not XML-safe" % bad[0]
        if k in ("alloc::string::String", "str"):
            r = fmtdoc.escape_image(h.value)
            if r is None:
                return "free text reaches the document without escape_xml: %s" % tm.show(h.value, 3)[:120]
            base, img = r
            for c, s in img.items():
                if not fmtdoc.SAFE.match(s):
                    return "escape leaves %r as %r" % (c, s)
            return True
        return "value of type %s has no known safe alphabet" % k
    return classify


def run(ctx, rep):
    rep.rule = ("X1 the symbolic XML document (value graph of to_xml expanded through the AST templates) tokenises into a "
                "balanced element forest, every repeated/conditional fragment balanced on its own; X2 every free-text hole is "
                "an escape chain whose image of each character class is XML-safe (decided for all strings); X3 each hole of the "
                "plain report follows the documented label with the documented field and precision; X4 serde structure")
    rep.explanation = ("Well-formedness and agreement of renderings with the result are decided on templates + dataflow, i.e. "
                       "for every result and every string, not for sampled outputs.")
    rep.assumptions = ["std::fmt prints the digits of the value", "XML 1.0 control characters outside the property's alphabet",
                       "serde/serde_json behave as documented (A5)"]
    lib = ctx.lib
    T = fmtdoc.Templates(lib)
    classify = make_classifier(ctx)
    load_field_types(ctx)
    # ------------------------------------------------------------------ X1 / X2
    body = ctx.find_impl_method(lib, "AsCteXml", "EnergyPerformance", "to_xml")
    ev, r, args = ctx.eval_entry("lib", body)
    doc = fmtdoc.expand(r, T)
    nh = count(doc, "hole")
    nl = count(doc, "lit")
    frags = fragments(doc)
    bad = 0
    for name, d in frags:
        key = "C17/X1/%s" % name
        try:
            fmtdoc.xml_check(d, classify)
            rep.discharged(key, "XML fragment <%s> is a balanced forest with safe holes" % name)
        except fmtdoc.XmlError as ex:
            bad += 1
            rep.violated(key, "XML output is well formed for every result and every text", construct=loc_of(body),
                         why=str(ex))
    try:
        fmtdoc.xml_check(doc, classify)
        rep.discharged("C17/X1/document", "the whole document is one balanced forest",
                       derivation="%d literal pieces, %d holes" % (nl, nh))
    except fmtdoc.XmlError as ex:
        if not bad:
            rep.violated("C17/X1/document", "XML output is well formed", construct=loc_of(body), why=str(ex))
    rep.floor("xml-holes", nh, 30)
    rep.floor("xml-fragments", len(frags), 8)
    # ------------------------------------------------------------------ X3 plain report
    pbody = ctx.find_impl_method(lib, "AsCtePlain", "EnergyPerformance", "to_plain")
    ev2, r2, a2 = ctx.eval_entry("lib", pbody)
    pdoc = fmtdoc.expand(r2, T)
    self_t = a2[0]
    _type_of[self_t] = "EnergyPerformance"
    flat = flatten(pdoc)
    seen = 0
    for label, path, prec in PLAIN:
        key = "C17/X3/%s" % "_".join(path)
        hole = None
        for i, seg in enumerate(flat):
            if seg[0] == "lit" and seg[1].endswith(label) and i + 1 < len(flat) and flat[i + 1][0] == "hole":
                hole = flat[i + 1][1]
                break
        if hole is None:
            rep.violated(key, "the plain report prints '%s<value>'" % label, construct=loc_of(pbody),
                         why="label not found in front of a value")
            continue
        seen += 1
        want = path_term(self_t, path)
        if hole.value is want and hole.precision == prec:
            rep.discharged(key, "'%s' shows %s with %d decimals" % (label.strip(), ".".join(path), prec))
        else:
            rep.violated(key, "'%s' shows %s with %d decimals" % (label.strip(), ".".join(path), prec), construct=loc_of(pbody),
                         why="prints %s with precision %s" % (tm.show(hole.value, 4)[:120], hole.precision))
    rep.floor("plain-labels", seen, 15)
    # the two weighted-energy sections: everything printed under "(paso A)" comes from we.a / we.a_by_srv, everything
    # under "(paso B)" from we.b / we.b_by_srv (totals and the per-service table)
    section = None
    nsec = {"a": 0, "b": 0}
    bad_sec = []
    for seg in flat:
        if seg[0] == "lit":
            if "(paso A)" in seg[1]:
                section = "a"
            elif "(paso B)" in seg[1]:
                section = "b"
            elif "\n** " in seg[1] or seg[1].startswith("** "):
                section = None
            continue
        if section is None:
            continue
        terms = []
        if seg[0] == "hole" and isinstance(getattr(seg[1], "value", None), tm.T):
            terms.append(seg[1].value)
        elif seg[0] == "rep" and len(seg) > 3 and isinstance(seg[3], tm.T):
            terms.append(seg[3])
        for t in terms:
            fields = set(x.a[3] for x in tm.subterms(t) if x.op == "proj" and x.a[3] in ("a", "b", "a_by_srv", "b_by_srv"))
            if not fields:
                continue
            want = {section, section + "_by_srv"}
            nsec[section] += 1
            if not fields <= want:
                bad_sec.append("under (paso %s) the report prints %s: %s" % (section.upper(), sorted(fields), tm.show(t, 3)[:100]))
    if bad_sec:
        rep.violated("C17/X3/steps", "the step A and step B sections of the plain report print the step A / step B results "
                     "(totals and per-service table)", construct=loc_of(pbody), why="; ".join(bad_sec)[:400])
    elif nsec["a"] >= 4 and nsec["b"] >= 4:
        rep.discharged("C17/X3/steps", "step A section prints we.a and we.a_by_srv, step B section prints we.b and we.b_by_srv",
                       derivation="%d + %d values and tables" % (nsec["a"], nsec["b"]))
    else:
        rep.violated("C17/X3/steps", "the plain report has a step A and a step B section with totals and per-service tables",
                     construct=loc_of(pbody), why="found %s printed values" % nsec)
    # sorted key/value lists (stable tables)
    sorted_lists = [s for s in flatten_all(pdoc) if s[0] == "rep"]
    unsorted = []
    for t in tm.subterms(r2):
        if t.op == "join" and t.a[0].op == "collect":
            unsorted.append(t)
    if unsorted:
        rep.violated("C17/X5/plain-order", "per-service / per-carrier lists of the plain report are sorted",
                     construct=loc_of(pbody), why="a list built from a hash map is joined without sorting: %s"
                     % tm.show(unsorted[0], 3)[:200])
    else:
        rep.discharged("C17/X5/plain-order", "every map-derived list in the plain report is sorted before joining")
    # XML Epm2 values
    xflat = flatten(doc)
    xself = args[0]
    _type_of[xself] = "EnergyPerformance"
    for label, path, prec in (("<kexp>", ("k_exp",), 2), ("<AreaRef>", ("arearef",), 2),
                              ("<tot>", ("balance_m2", "we", "b", "ren+nren"), 1),
                              ("<nren>", ("balance_m2", "we", "b", "nren"), 1)):
        key = "C17/X3/xml/%s" % label.strip("<>")
        hole = None
        for i, seg in enumerate(xflat):
            if seg[0] == "lit" and seg[1].endswith(label) and i + 1 < len(xflat) and xflat[i + 1][0] == "hole":
                hole = xflat[i + 1][1]
        want = path_term(xself, path)
        if hole is not None and hole.value is want and hole.precision == prec:
            rep.discharged(key, "XML %s reports %s with %d decimals" % (label, ".".join(path), prec))
        else:
            rep.violated(key, "XML %s reports %s with %d decimals" % (label, ".".join(path), prec), construct=loc_of(body),
                         why="found %r" % (hole,))
    # ------------------------------------------------------------------ X4 serde
    check_serde(ctx, rep)
    rep.analysed = {"xml_literals": nl, "xml_holes": nh, "xml_fragments": len(frags), "plain_labels": seen}


def count(doc, kind):
    n = 0
    for s in doc:
        if s[0] == kind:
            n += 1
        elif s[0] == "rep":
            n += sum(count(d, kind) for d in s[1])
        elif s[0] == "alt":
            n += count(s[2], kind) + count(s[3], kind)
    return n


def flatten(doc):
    out = []
    for s in doc:
        if s[0] in ("lit", "hole"):
            if s[0] == "lit" and out and out[-1][0] == "lit":
                out[-1] = ("lit", out[-1][1] + s[1])
            else:
                out.append(s)
        elif s[0] == "alt":
            out.append(("altmark",))
        else:
            out.append(s)
    return out


def flatten_all(doc):
    out = []
    for s in doc:
        out.append(s)
        if s[0] == "rep":
            for d in s[1]:
                out.extend(flatten_all(d))
        elif s[0] == "alt":
            out.extend(flatten_all(s[2]))
            out.extend(flatten_all(s[3]))
    return out


def fragments(doc):
    """Named repeated / conditional sub-documents (first tag name as the stable name)."""
    out = []
    names = {}

    def first_tag(d):
        for s in d:
            if s[0] == "lit":
                m = re.search(r"<([A-Za-z_][A-Za-z0-9_]*)", s[1])
                if m:
                    return m.group(1)
            elif s[0] == "alt":
                return first_tag(s[2]) or first_tag(s[3])
        return None

    def walk(d):
        for s in d:
            if s[0] == "rep":
                for sub in s[1]:
                    n = first_tag(sub) or "text"
                    names[n] = names.get(n, 0) + 1
                    out.append(("%s#%d" % (n, names[n]), sub))
                    walk(sub)
            elif s[0] == "alt":
                walk(s[2])
                walk(s[3])
    walk(doc)
    return out


def check_serde(ctx, rep):
    lib = ctx.lib
    ser, de = set(), set()
    for im in lib.impls:
        tr = im.get("trait") or ""
        if tr.endswith("Serialize") and "ser" in tr or tr.endswith("::Serialize"):
            ser.add(im["self_ty_s"].split("<")[0])
        if "Deserialize" in tr:
            de.add(im["self_ty_s"].split("<")[0])
    # types reachable from EnergyPerformance
    adts = dict((a["path"], a) for a in lib.facts["adts"])
    reach = set()
    todo = [p for p in adts if p.endswith("EnergyPerformance")]
    keytypes = []
    while todo:
        p = todo.pop()
        if p in reach:
            continue
        reach.add(p)
        for v in adts[p]["variants"]:
            for f in v["fields"]:
                walk_ty(lib, f["ty"], adts, todo, keytypes, set())
    n = 0
    for p in sorted(reach):
        n += 1
        key = "C17/X4/derive/%s" % p.split("::")[-1]
        if p in ser and p in de:
            rep.discharged(key, "%s derives Serialize and Deserialize" % p.split("::")[-1], nontrivial=False)
        else:
            rep.violated(key, "every type of the JSON document can be written and read back", construct=short_loc(adts[p]["loc"]),
                         why="missing %s" % ("Serialize" if p not in ser else "Deserialize"))
    for kt in keytypes:
        t = lib.types[kt]
        ok = (t["k"] == "adt" and (t["path"].endswith("String") or lib.fieldless_enum_variants(kt) is not None))
        key = "C17/X4/mapkey/%s" % t["s"].split("::")[-1]
        if ok:
            rep.discharged(key, "HashMap key type %s serialises as a JSON object key" % t["s"], nontrivial=False)
        else:
            rep.violated(key, "map keys are strings or unit enums (serde_json refuses others)", why=t["s"])
    for fa in lib.facts["field_attrs"]:
        attrs = " ".join(fa["attrs"])
        if "skip_serializing_if" in attrs:
            key = "C17/X4/default/%s.%s" % (fa["item"].split("::")[-1], fa["field"])
            if re.search(r"serde\(\s*default", attrs) or "default" in re.sub(r"skip_serializing_if\s*=\s*\"[^\"]*\"", "", attrs):
                rep.discharged(key, "a field omitted when empty is defaulted on read-back", nontrivial=False)
            else:
                rep.violated(key, "a field skipped on output must have #[serde(default)] to be read back",
                             why="%s.%s: %s" % (fa["item"], fa["field"], attrs))
    # (iv) custom field serialisers write a float computed from the field by float arithmetic only
    seen_fn = set()
    for fa in lib.facts["field_attrs"]:
        m = re.search(r'serialize_with\s*=\s*"([^"]+)"', " ".join(fa["attrs"]))
        if not m or m.group(1) in seen_fn:
            continue
        fn = m.group(1)
        seen_fn.add(fn)
        key = "C17/X4/serialize_with/%s" % fn.split("::")[-1]
        b = ctx.find_public_fn(lib, fn.split("::")[-1], must=False)
        if b is None:
            rep.violated(key, "custom field serialisers are analysable", why="function %s not found" % fn)
            continue
        ev, r, args = ctx.eval_entry("lib", b)
        x = args[0]
        calls = [t for t in tm.subterms(r) if t.op == "call" and "serialize_" in str(t.a[0])]
        bad = None
        if len(calls) != 1:
            bad = "expected exactly one serializer call, found %d" % len(calls)
        else:
            c = calls[0]
            if not str(c.a[0]).endswith(("serialize_f32", "serialize_f64")):
                bad = "a float field is written with %s" % str(c.a[0]).split("::")[-1]
            val = c.a[-1]
            for t in tm.subterms(val):
                if t is x or t.op in ("num", "mul", "div", "round", "add", "sub", "neg", "abs", "deref", "ref"):
                    continue
                bad = "the value written passes through '%s' (%s): not float-only arithmetic, so large or non-finite-range values are altered" \
                      % (t.op, tm.show(t, 2)[:80])
                break
            if bad is None and x not in tm.free_syms(val):
                bad = "the value written does not depend on the field"
        if bad:
            rep.violated(key, "numbers in the JSON document are the computed values (rounded), for every magnitude", construct=loc_of(b), why=bad)
        else:
            rep.discharged(key, "%s writes round-to-decimals of the field using float arithmetic only (no integer cast, no clamp)" % fn)
    rep.floor("serde-types", n, 15)


def walk_ty(lib, tid, adts, todo, keytypes, seen):
    if tid in seen:
        return
    seen.add(tid)
    t = lib.types[tid]
    if t["k"] == "adt":
        if t.get("local") and t["path"] in adts:
            todo.append(t["path"])
        if t["path"].endswith("HashMap") and t["args"]:
            keytypes.append(t["args"][0])
        for a in t.get("args", []):
            if isinstance(a, int):
                walk_ty(lib, a, adts, todo, keytypes, seen)
    elif t["k"] in ("ref", "slice", "array"):
        walk_ty(lib, t["t"], adts, todo, keytypes, seen)
    elif t["k"] == "tuple":
        for a in t["ts"]:
            walk_ty(lib, a, adts, todo, keytypes, seen)
