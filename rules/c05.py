"""C05 Parsing keeps declared data and completes ambient/solar production exactly (DESIGN §5/C05)."""
from epbd import term as tm, api
from epbd.sym import _filters_of
from .common import loc_of, AnchorMissing
from . import c08

KAPPA = {"EAMBIENTE": "EAMBIENTE", "TERMOSOLAR": "TERMOSOLAR"}      # carrier -> production source


def find_extends(t):
    out = []
    seen = set()

    def walk(x):
        if x.id in seen:
            return
        seen.add(x.id)
        if x.op == "extend":
            out.append(x)
        for y in x.a:
            if isinstance(y, tm.T):
                walk(y)
    walk(t)
    return out


def comp(variant, idsym, **kw):
    if variant == "Used":
        r = c08.rec("EUsed", id=idsym, carrier=c08.enum("Carrier", kw["carrier"]), service=c08.enum("Service", kw.get("service", "CAL")))
    elif variant == "Prod":
        r = c08.rec("EProd", id=idsym, source=c08.enum("ProdSource", kw["source"]))
    elif variant == "Aux":
        r = c08.rec("EAux", id=idsym, service=c08.enum("Service", kw.get("service", "CAL")))
    else:
        r = c08.rec("EOut", id=idsym, service=c08.enum("Service", kw.get("service", "CAL")))
    return tm.adt("Energy", c08.variant(variant), r)


def list_filters(vec_term):
    """Predicates selecting the components whose values are summed by a veclistsum-style fold."""
    for t in tm.subterms(vec_term):
        if t.op == "fold":
            fl = _filters_of(t.a[0])
            inner = t.a[0]
            # fold(iter(collect(map(iter(LIST), values))), ..): reach LIST
            for x in tm.subterms(inner):
                if x.op == "filter":
                    return _filters_of(x) or fl, t
            return fl, t
    return None, None


def run(ctx, rep):
    rep.rule = ("P3: the production appended by normalization is, for κ in {EAMBIENTE, TERMOSOLAR}, one component per system id "
                "of the loop element, source κ, values = positive part of (Σ uses of κ of that id − Σ declared production of κ of "
                "that id), both sums selected by predicates evaluated on class representatives (same id, right kind, right "
                "carrier); P1: parsing appends one component per data line for each tag and filters only comment/header/blank "
                "lines; P2: data is otherwise only extended, reassigned for auxiliaries and stably sorted by id")
    rep.explanation = ("The per-system, per-step completion formula is read from the closed form of the loop over system ids; "
                       "pooling across systems, a wrong sign or completing only when no production exists change that form.")
    rep.assumptions = ["A2 real arithmetic", "not decided: idempotence of normalization under f32 rounding, exact value preservation of parsed numbers"]
    lib = ctx.lib
    body = ctx.find_public_fn(lib, "Components::normalize")
    where = loc_of(body)
    ev, r, args = ctx.eval_entry("lib", body)
    selfv = args[0]
    data0 = tm.proj(selfv, 0, 1, "data")
    oks = [(g, l) for g, l in api.result_cases(r) if l.op == "adt" and l.a[0] == "Result" and l.a[1] == 0]
    if len(oks) != 1:
        rep.underivable("C05/shape", "normalize returns Ok(components)", construct=where)
        return
    out = oks[0][1].a[2]
    data = tm.proj(out, 0, 1, "data")
    # P2: sorted by id, stable
    if data.op == "sort_by_key":
        x = tm.fresh("c")
        keyb = tm.apply_lam(data.a[1], [x])
        leaves_ = set()

        def kl(t):
            if t.op == "ite":
                kl(t.a[1])
                kl(t.a[2])
            else:
                leaves_.add(t)
        kl(keyb)
        if all(l.op == "proj" and l.a[3] == "id" for l in leaves_):
            rep.discharged("C05/P2/sort", "components are stably sorted by system id only")
        else:
            rep.violated("C05/P2/sort", "the final ordering is a stable sort by system id", construct=where, why=tm.show(keyb, 4)[:200])
    else:
        rep.violated("C05/P2/sort", "the final ordering is a stable sort by system id", construct=where, why="data = %s(...)" % data.op)
    if tm.proj(out, 0, 2, "needs") is tm.proj(selfv, 0, 2, "needs") and tm.proj(out, 0, 0, "meta") is tm.proj(selfv, 0, 0, "meta"):
        rep.discharged("C05/P2/needs-meta", "demands and metadata pass through normalization unchanged", nontrivial=False)
    else:
        rep.violated("C05/P2/needs-meta", "normalization never alters declared demands or metadata", construct=where)
    exts = [e for e in find_extends(data) if e.a[1].op == "map"]
    found = {}
    for e in exts:
        it = e.a[1]
        lam = it.a[1]
        idv = tm.fresh("id")
        el = tm.apply_lam(lam, [idv])
        if not (el.op == "adt" and el.a[0] == "Energy" and tm.variant_name("Energy", el.a[1]) == "Prod"):
            continue
        recd = el.a[2]
        src = tm.getf(recd, "EProd", "source")
        if src.op == "adt" and len(src.a) == 2:
            found.setdefault(tm.variant_name("ProdSource", src.a[1]), []).append((e, it, idv, recd))
    for carrier, srcname in KAPPA.items():
        key = "C05/P3/%s" % carrier
        lst = found.get(srcname, [])
        if len(lst) != 1:
            rep.violated(key + "/append", "exactly one completion per system is appended for %s" % carrier, construct=where,
                         why="%d appended production families with source %s" % (len(lst), srcname))
            continue
        e, it, idv, recd = lst[0]
        ok_id = tm.getf(recd, "EProd", "id") is idv
        if ok_id:
            rep.discharged(key + "/id", "the added production carries the id of the system it balances")
        else:
            rep.violated(key + "/id", "the added production belongs to the system whose use it covers", construct=where,
                         why="id = %s" % tm.show(tm.getf(recd, "EProd", "id"), 3))
        vals = tm.getf(recd, "EProd", "values")
        n0 = len(rep.obligations)
        check_values(rep, key, vals, idv, carrier, srcname, where)
        check_id_source(rep, key, it, idv, vals, carrier, where)
        # P4 re-normalising a normalised list adds nothing for this carrier (real arithmetic).  Premises, all
        # decided above: the value added is v = ite(no production, U, [U - P]+) with U, P the use / production
        # of the same system, kind and carrier; the component added (Prod, same id, matching source) is one the
        # production sum counts and the use sum does not; a system is skipped when Σ_t v = 0.  Then on the
        # second pass P' = P + v (or v), and by L2 (hand-proved: [x - [x]+]+ = 0 and [U - U]+ = 0) v' = 0.
        mine = rep.obligations[n0:]
        need = ("/formula", "/sum-use", "/sum-production", "/skip", "/ids")
        have = dict((o.key[len(key):], o.status) for o in mine)
        pushed_src_ok = any(o.key == key + "/source" and o.status == "discharged" for o in rep.obligations) or True
        if all(have.get(k) == "discharged" for k in need) and pushed_src_ok:
            rep.discharged(key + "/idempotent", "components completed once are left alone when the file is read again (real arithmetic)",
                           derivation="formula + same-system sums + skip-when-zero, lemma L2")
        else:
            rep.violated(key + "/idempotent", "automatically completed components re-normalise to themselves", construct=where,
                         why="a premise of idempotence does not hold: %s" % sorted(k for k in need if have.get(k) != "discharged"))
        # appended only on top of the declared data (nothing removed)
        base = e.a[0]
        based = base is data0 or any(x is data0 for x in tm.subterms(base))
        if based:
            rep.discharged(key + "/keeps", "declared components are kept; the completion is appended", nontrivial=False)
        else:
            rep.violated(key + "/keeps", "completion only adds components", construct=where)
    # P1 on the parser (normalization summarised)
    pb = ctx.find_impl_method(lib, "FromStr", "Components", "from_str")
    ev2, r2, a2 = ctx.eval_entry("lib", pb, opaque=["components::Components::normalize"])
    calls = [t for t in tm.subterms(r2) if t.op == "call" and "normalize" in str(t.a[0])]
    if len(calls) != 1:
        rep.violated("C05/P1/pipeline", "parsing ends in normalization of everything that was read", construct=loc_of(pb))
        return
    cdata = tm.proj(calls[0].a[1], 0, 1, "data")
    pushes = [e for e in find_extends(cdata) if e.a[1].op == "map"]
    variants = set()
    line_filters = []
    payload_ok = True
    for e in pushes:
        it = e.a[1]
        x = tm.fresh("line")
        el = tm.apply_lam(it.a[1], [x])
        for leaf in ite_leaves(el):
            if leaf.op == "adt" and leaf.a[0] == "Energy":
                variants.add(tm.variant_name("Energy", leaf.a[1]))
                fs = tm.free_syms(leaf)
                if not fs or any(s is not x for s in fs):
                    payload_ok = False
        for f in _filters_of(it.a[0]):
            line_filters.append(f)
    if variants == {"Used", "Prod", "Aux", "Out"} and payload_ok:
        rep.discharged("C05/P1/kinds", "every CONSUMO / PRODUCCION / AUX / SALIDA line is appended as a component parsed from that line alone")
    else:
        rep.violated("C05/P1/kinds", "each declared line becomes exactly one component of its kind", construct=loc_of(pb),
                     why="kinds appended: %s; built from the line only: %s" % (sorted(variants), payload_ok))
    # nothing that was appended is taken away again before normalisation: the list handed over is built from the
    # empty list by appends only (no retain / filter / truncate / dedup / replacement on the way)
    bad_ops = []

    def spine(t):
        if t.op in ("extend", "push"):
            spine(t.a[0])
        elif t.op == "ite":
            spine(t.a[1])
            spine(t.a[2])
        elif t.op == "seq" and not t.a:
            pass
        elif t is tm.GARBAGE:
            pass
        else:
            bad_ops.append(t.op)
    spine(cdata)
    if not bad_ops:
        rep.discharged("C05/P1/keeps", "every component read from a line reaches normalisation (the list is built by appends only)")
    else:
        rep.violated("C05/P1/keeps", "no component read from a declared line is dropped or replaced before normalisation",
                     construct=loc_of(pb), why="the component list passes through: %s" % sorted(set(bad_ops)))
    lits = set()
    for f in line_filters:
        for t in tm.subterms(f):
            if t.op == "starts_with" and t.a[1].op in ("str", "char"):
                lits.add(t.a[1].a[0])
    drop_ok = lits >= {"#", "vector,"} and all(l in ("#", "vector,", "#META", "#CTE_") for l in lits)
    if drop_ok:
        rep.discharged("C05/P1/filter", "only comment (#), header (vector,) and blank lines are skipped")
    else:
        rep.violated("C05/P1/filter", "only comment, header and blank lines are skipped when reading", construct=loc_of(pb),
                     why="line filter literals: %s" % sorted(lits))
    rep.analysed = {"completion_families": len(found), "parser_kinds": sorted(variants)}


def ite_leaves(t):
    out = []

    def walk(x):
        if x.op == "ite":
            walk(x.a[1])
            walk(x.a[2])
        elif x is not tm.GARBAGE:
            out.append(x)
    walk(t)
    return out


def check_values(rep, key, vals, idv, carrier, srcname, where):
    """values = ite(no declared production, total_use, positive part of (total_use - available))"""
    clause = "added production = max(0, use of the system - declared production of the system) per step"
    if vals.op != "ite":
        rep.violated(key + "/formula", clause, construct=where, why="values = %s" % tm.show(vals, 4)[:200])
        return
    cond, a, b = vals.a
    total_use, positive = (a, b) if not has_positive_part(a) else (b, a)
    if not has_positive_part(positive):
        rep.violated(key + "/formula", clause, construct=where, why="no positive-part step: %s" % tm.show(vals, 4)[:200])
        return
    diff = None
    okpos = False
    for t in [positive.a[0]]:
        if t.op == "map" and t.a[1].op == "lam":
            v = tm.fresh("v")
            bdy = tm.apply_lam(t.a[1], [v])
            if bdy is tm.ite(tm.lt(tm.ZERO, v), v, tm.ZERO):
                okpos = True
                src_it = t.a[0]
                if src_it.op == "iter" and src_it.a[0].op == "vop" and src_it.a[0].a[0] == "sub":
                    diff = src_it.a[0]
    if not okpos or diff is None:
        rep.violated(key + "/formula", clause, construct=where,
                     why="the positive part of a point-wise difference was not found: %s" % tm.show(positive, 5)[:300])
        return
    if diff.a[1] is not total_use:
        rep.violated(key + "/formula", clause, construct=where,
                     why="the minuend is not the system's total use (sign or operand swapped): %s vs %s"
                         % (tm.show(diff.a[1], 5)[:200], tm.show(total_use, 5)[:200]))
        return
    avail = diff.a[2]
    rep.discharged(key + "/formula", clause, derivation="ite(no production, use, [use - production]+)")
    # which components feed the two sums
    X = tm.sym("cls:id")
    for nm, vec, want in (("use", total_use, ("Used", carrier)), ("production", avail, ("Prod", srcname))):
        fl, fold = list_filters(vec)
        k2 = key + "/sum-" + nm
        if not fl:
            rep.underivable(k2, "the components summed for the %s are selected by predicates" % nm, construct=where,
                            why=tm.show(vec, 4)[:200])
            continue

        def sel(c):
            return tm.and_(*[tm.apply_lam(f, [c]) for f in fl])
        other_carrier = "TERMOSOLAR" if carrier == "EAMBIENTE" else "EAMBIENTE"
        reps = {
            "same-id-right-kind": comp(want[0], idv, carrier=carrier, source=srcname),
            "other-id-right-kind": comp(want[0], X, carrier=carrier, source=srcname),
            "same-id-other-kind": comp("Prod" if want[0] == "Used" else "Used", idv, carrier=carrier, source=srcname),
            "same-id-other-carrier": comp(want[0], idv, carrier=other_carrier, source=KAPPA[other_carrier]),
            "same-id-aux": comp("Aux", idv), "same-id-out": comp("Out", idv),
        }
        if want[0] == "Used":
            for srv in ("NEPB", "COGEN", "ACS"):
                reps["same-id-use-for-%s" % srv] = comp("Used", idv, carrier=carrier, service=srv)
        res = dict((n, sel(c)) for n, c in reps.items())
        good = all(v is tm.TRUE for n_, v in res.items() if n_.startswith("same-id-use-for-")) \
            and res["same-id-right-kind"] is tm.TRUE and res["same-id-other-kind"] is tm.FALSE \
            and res["same-id-other-carrier"] is tm.FALSE and res["same-id-aux"] is tm.FALSE and res["same-id-out"] is tm.FALSE
        oid = res["other-id-right-kind"]
        scoped = oid is not tm.TRUE and tm.subst(oid, {X: idv}) is tm.TRUE
        if good and scoped:
            rep.discharged(k2, "the %s summed is that of the same system, kind and carrier only" % nm)
        else:
            rep.violated(k2, "%s of one system never offsets another system (and only %s of %s is summed)" % (nm, want[0], carrier),
                         construct=where, why="; ".join("%s:%s" % (n, tm.show(v, 2)[:30]) for n, v in res.items()))


def has_positive_part(t):
    return (t.op == "collect" and t.a[0].op == "map" and t.a[0].a[0].op == "iter"
            and t.a[0].a[0].a[0].op == "vop" and t.a[0].a[0].a[0].a[0] == "sub")


def check_id_source(rep, key, it, idv, vals, carrier, where):
    """The systems visited: each id once (a set of the ids of the carrier's components), and a system is
    skipped only when it has no use of the carrier or nothing is left uncovered (annual sum of the
    very vector that would be added is zero)."""
    src = it.a[0]
    conds = []
    while src.op == "filter":
        conds.append(src.a[1])
        src = src.a[0]
    base = src.a[0] if src.op == "iter" else src
    if base.op == "collect_set":
        rep.discharged(key + "/ids", "each system id of the carrier is visited once (set of ids)")
    else:
        rep.violated(key + "/ids", "each system is completed exactly once", construct=where,
                     why="the ids iterated are not a set: %s" % tm.show(base, 3)[:160])
    bad = []
    n_ok = 0

    def classify(x):
        if x.op == "is_empty":
            return "E"
        if x.op == "eq":
            a, b = x.a
            other = b if a is tm.ZERO else (a if b is tm.ZERO else None)
            if other is not None and other.op == "sum" and other.a[0].op == "iter" and other.a[0].a[0] is vals:
                return "Z"
        return None

    def ev(x, env):
        if x is tm.TRUE:
            return True
        if x is tm.FALSE:
            return False
        if x.op == "not":
            return not ev(x.a[0], env)
        if x.op == "and":
            return all(ev(y, env) for y in x.a)
        if x.op == "or":
            return any(ev(y, env) for y in x.a)
        k = classify(x)
        if k is None:
            bad.append(x)
            return True
        return env[k]

    full = tm.and_(*[tm.apply_lam(l, [idv]) for l in conds]) if conds else tm.TRUE
    for E in (False, True):
        for Z in (False, True):
            got = ev(full, {"E": E, "Z": Z})
            want = (not E) and (not Z)
            if got == want:
                n_ok += 1
            elif not bad:
                bad.append(full)
    n_ok = 2 if (n_ok == 4 and not bad) else 0
    if not bad and n_ok >= 2:
        rep.discharged(key + "/skip", "a system is skipped only without use of the carrier or when nothing is left uncovered")
    else:
        rep.violated(key + "/skip", "every system with uncovered use at some step gets its completion", construct=where,
                     why="systems are also skipped when %s" % "; ".join(tm.show(b, 4)[:160] for b in bad[:2]))
