"""Abstract interpretation of a factor-list term over the finite key space
(carrier x source x dest x step): for every key, a presence condition and a value, as terms
over the symbols of an arbitrary initial set.  Files that repeat a key are outside (first match)."""
from epbd import term as tm

KEY_FIELDS = ("carrier", "source", "dest", "step")
KEY_ADTS = ("Carrier", "Source", "Dest", "Step")
VAL_FIELDS = ("ren", "nren", "co2")


def all_keys():
    out = []
    n = [len(tm.ADT_NAMES[a]) for a in KEY_ADTS]
    for c in range(n[0]):
        for s in range(n[1]):
            for d in range(n[2]):
                for st in range(n[3]):
                    out.append((c, s, d, st))
    return out


def key_name(k):
    return ",".join(tm.variant_name(a, i) for a, i in zip(KEY_ADTS, k))


def key_of_names(c, s, d, st):
    def idx(adt, name):
        for i, (n, _f) in tm.ADT_NAMES[adt].items():
            if n == name:
                return i
        raise KeyError(name)
    return (idx("Carrier", c), idx("Source", s), idx("Dest", d), idx("Step", st))


class Abs(object):
    """Abstract factor set: key -> (presence term, value dict)"""

    def __init__(self, base):
        self.base = base
        self.keys = all_keys()
        fnames = tm.field_names("Factor", 0)
        self.fnames = fnames
        self.memo = {}
        self.cond_memo = {}
        self.p0 = dict((k, tm.sym("has[%s]" % key_name(k))) for k in self.keys)
        self.v0 = dict((k, dict((f, tm.sym("%s[%s]" % (f, key_name(k)))) for f in VAL_FIELDS)) for k in self.keys)
        self.problems = []
        self._isfl = {}

    def elem(self, k, vals):
        args = []
        for f in self.fnames:
            if f in KEY_FIELDS:
                i = KEY_FIELDS.index(f)
                args.append(tm.adt(KEY_ADTS[i], k[i]))
            elif f in VAL_FIELDS:
                args.append(vals[f])
            else:
                args.append(tm.sym("comment[%s]" % key_name(k)))
        return tm.adt("Factor", 0, *args)

    def matches(self, lam, k, vals):
        r = tm.apply_lam(lam, [self.elem(k, vals)])
        r = self.cond(r)
        return r

    def of(self, w):
        r = self.memo.get(w.id)
        if r is None:
            r = self._of(w)
            self.memo[w.id] = r
        return r

    def _of(self, w):
        if w is self.base:
            return dict((k, (self.p0[k], self.v0[k])) for k in self.keys)
        op = w.op
        if op == "seq" and len(w.a) == 0:
            return dict((k, (tm.FALSE, self.v0[k])) for k in self.keys)
        if op == "push":
            m = dict(self.of(w.a[0]))
            f = w.a[1]
            k = self.key_of_elem(f)
            if k is None:
                self.problems.append("pushed factor with a non-constant key: %s" % tm.show(f, 3)[:120])
                return m
            newv = dict((x, self.val(tm.getf(f, "Factor", x))) for x in VAL_FIELDS)
            p, v = m[k]
            m[k] = (tm.TRUE, dict((x, tm.ite(p, v[x], newv[x])) for x in VAL_FIELDS))
            return m
        if op == "upd_first":
            m = dict(self.of(w.a[0]))
            pred, upd = w.a[1], w.a[2]
            hit = []
            for k in self.keys:
                p, v = m[k]
                c = self.matches(pred, k, v)
                if c is tm.FALSE:
                    continue
                hit.append((k, c))
            if len(hit) != 1 or hit[0][1] is not tm.TRUE:
                self.problems.append("an update matches %d keys (not exactly one): %s"
                                     % (len(hit), [key_name(k) for k, _c in hit][:4]))
            for k, c in hit:
                p, v = m[k]
                e2 = tm.apply_lam(upd, [self.elem(k, v)])
                nv = dict((x, self.val(tm.getf(e2, "Factor", x))) for x in VAL_FIELDS)
                m[k] = (p, dict((x, tm.ite(tm.and_(c, p), nv[x], v[x])) for x in VAL_FIELDS))
            return m
        if op == "ite":
            c = self.cond(w.a[0])
            a, b = self.of(w.a[1]), self.of(w.a[2])
            out = {}
            for k in self.keys:
                pa, va = a[k]
                pb, vb = b[k]
                out[k] = (tm.ite(c, pa, pb), dict((x, tm.ite(c, va[x], vb[x])) for x in VAL_FIELDS))
            return out
        if op == "retain":
            m = dict(self.of(w.a[0]))
            for k in self.keys:
                p, v = m[k]
                c = self.matches(w.a[1], k, v)
                m[k] = (tm.and_(p, c), v)
            return m
        self.problems.append("factor list built by an operation outside the model: %s" % op)
        return dict((k, (tm.sym("?p"), self.v0[k])) for k in self.keys)

    def is_factor_list(self, t):
        r = self._isfl.get(t.id)
        if r is None:
            r = t is self.base or any(x is self.base for x in tm.subterms(t))
            self._isfl[t.id] = r
        return r

    def key_of_elem(self, f):
        if f.op != "adt":
            return None
        k = []
        for fld, adt in zip(KEY_FIELDS, KEY_ADTS):
            x = tm.getf(f, "Factor", fld)
            if x.op == "adt" and x.a[0] == adt and len(x.a) == 2:
                k.append(x.a[1])
            else:
                return None
        return tuple(k)

    # conditions / values referring to intermediate lists are re-expressed over the key space
    def cond(self, c):
        r = self.cond_memo.get(c.id)
        if r is None:
            r = self._cond(c)
            self.cond_memo[c.id] = r
        return r

    def _cond(self, c):
        if c.op == "any" and c.a[0].op == "iter" and self.is_factor_list(c.a[0].a[0]):
            m = self.of(c.a[0].a[0])
            parts = []
            for k in self.keys:
                p, v = m[k]
                if p is tm.FALSE:
                    continue
                mt = self.matches(c.a[1], k, v)
                if mt is not tm.FALSE:
                    parts.append(tm.and_(p, mt))
            return tm.or_(*parts)
        if c.op in ("and", "or", "not", "ite"):
            return tm.rebuild(c.op, [self.cond(x) if isinstance(x, tm.T) else x for x in c.a])
        if c.op == "isvar" and c.a[0].op in ("ite", "adt"):
            return c
        return c

    def val(self, t):
        """A value term; lookups into intermediate lists become key-space expressions."""
        if t.op == "proj" and t.a[3] in VAL_FIELDS and t.a[0].op == "find_val":
            fv = t.a[0]
            if fv.a[0].op == "iter" and self.is_factor_list(fv.a[0].a[0]):
                m = self.of(fv.a[0].a[0])
                r = tm.sym("?missing")
                for k in reversed(self.keys):
                    p, v = m[k]
                    if p is tm.FALSE:
                        continue
                    mt = self.matches(fv.a[1], k, v)
                    if mt is tm.FALSE:
                        continue
                    r = tm.ite(tm.and_(p, mt), v[t.a[3]], r)
                return r
        if t.op == "ite":
            return tm.ite(self.cond(t.a[0]), self.val(t.a[1]), self.val(t.a[2]))
        return t
