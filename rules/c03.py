"""C03 k_exp only interpolates between step A and step B (DESIGN §5/C03)."""
from epbd import term as tm, alg
from . import epmodel
from .epmodel import get, leaves, pstr
from .common import loc_of

K_FREE_GROUPS = ["used", "prod", "exp", "del", "f_match"]
WE_K_FREE = ["a", "a_by_srv", "del", "del_grid", "del_onst", "del_cgn", "exp_a", "exp_nepus_a",
             "exp_grid_a", "exp_ab", "exp_nepus_ab", "exp_grid_ab"]
WE_AFFINE = [("b", "a"), ("exp", "exp_a"), ("b_by_srv", "a_by_srv")]


def k_split(A, p, kid):
    """Split polynomial p as c0 + K*c1; returns (c0, c1, ok) with ok False when K occurs with
    another power or inside another atom."""
    c0 = {}
    c1 = {}
    for mono, c in p.m.items():
        d = dict(mono)
        pw = d.pop(kid, 0) if kid is not None else 0
        rest = tuple(sorted(d.items()))
        if pw == 0:
            c0[rest] = c0.get(rest, 0) + c
        elif pw == 1:
            c1[rest] = c1.get(rest, 0) + c
        else:
            return None, None, False
    return alg.Poly(dict((k, v) for k, v in c0.items() if v != 0)), \
        alg.Poly(dict((k, v) for k, v in c1.items() if v != 0)), True


def run(ctx, rep):
    rep.rule = ("k_exp-dependence of every result leaf of energy_performance: term-level independence for "
                "flows and step A; polynomial degree <= 1 in the atom k_exp with constant coefficient equal "
                "to the step-A normal form for step B; zero linear coefficient when nothing is exported")
    rep.explanation = ("The value graph gives each output as a term over the inputs; k_exp is one input symbol. "
                       "Flows/step-A leaves must not contain it (nor any presence or error gate); step-B leaves "
                       "are normalised to c0 + k_exp*c1 with c0 identical to the step-A leaf, for every input.")
    rep.assumptions = ["A2 real arithmetic (0*x, x+0 exact)", "A1 non-negative annual energies (zero-export gate)",
                       "A3/A4 front end and std models"]
    n_leaf = 0
    n_aff = 0
    for lm in (False, True):
        e = epmodel.ep(ctx, lm)
        where = loc_of(e.body)
        K = e.params.get("k_exp")
        if K is None:
            rep.violated("C03/anchor/k_exp", "energy_performance has a parameter k_exp", construct=where)
            return
        A = alg.Algebra()
        from .c01 import make_base_nonneg
        from epbd import order
        P = order.Prover(A, make_base_nonneg(e))

        def oracle(term):
            P.steps = 0
            try:
                return P.nonneg(A.scalar(term))
            except alg.NotScalar:
                return False
        A.nonneg_oracle = oracle
        kpoly = A.scalar(K)
        kid = list(kpoly.atoms())[0]

        def independent(t):
            return K not in tm.free_syms(t)
        # error / presence gates
        for g in e.ok_gates:
            if not independent(g):
                rep.violated("C03/gate/lm=%d" % lm, "no error path of the evaluation depends on k_exp",
                             construct=where, why=tm.show(g, 4)[:300])
        for (ci, cname, pres, bc) in e.carriers():
            if pres is tm.FALSE:
                continue
            tag = "%s/lm=%d" % (cname, lm)
            if not independent(pres):
                rep.violated("C03/presence/%s" % tag, "which carriers are balanced does not depend on k_exp",
                             construct=where)
            for grp in K_FREE_GROUPS:
                for p, t, gates in leaves(get(bc, grp), (grp,)):
                    n_leaf += 1
                    key = "C03/a/%s/%s" % (pstr(p), tag)
                    if independent(t) and all(independent(g) for g in gates):
                        rep.discharged(key, "%s does not depend on k_exp" % pstr(p), nontrivial=False)
                    else:
                        rep.violated(key, "final-energy flow %s does not depend on k_exp" % pstr(p), construct=where,
                                     why="k_exp occurs in the value computed for this field")
            we = get(bc, "we")
            for f in WE_K_FREE:
                for p, t, gates in leaves(get(we, f), ("we", f)):
                    n_leaf += 1
                    key = "C03/a/%s/%s" % (pstr(p), tag)
                    if independent(t) and all(independent(g) for g in gates):
                        rep.discharged(key, "%s does not depend on k_exp" % pstr(p), nontrivial=False)
                    else:
                        rep.violated(key, "step-A / partial weighted energy %s does not depend on k_exp" % pstr(p),
                                     construct=where, why="k_exp occurs in the value computed for this field")
            for fb, fa in WE_AFFINE:
                lb = leaves(get(we, fb), ("we", fb))
                la = dict((p[2:], (t, g)) for p, t, g in leaves(get(we, fa), ("we", fa)))
                for p, t, gates in lb:
                    n_aff += 1
                    key = "C03/bcd/%s/%s" % (pstr(p), tag)
                    clause = "%s = (step A value) + k_exp * c1, c1 = 0 when nothing is exported" % pstr(p)
                    if not all(independent(g) for g in gates):
                        rep.violated(key + "/gate", "presence of %s does not depend on k_exp" % pstr(p), construct=where)
                    twin = la.get(p[2:])
                    if twin is None:
                        rep.violated(key + "/twin", "step-A twin of %s exists" % pstr(p), construct=where)
                        continue
                    pb = A.scalar(t)
                    pa = A.scalar(twin[0])
                    c0, c1, ok = k_split(A, pb, kid)
                    hidden = False
                    if ok:
                        for part in (c0, c1):
                            if K in A.input_syms(part):
                                hidden = True
                    if not ok or hidden:
                        rep.violated(key, clause, construct=where,
                                     why="not affine in k_exp: k_exp occurs non-linearly or under a condition/ratio: %s"
                                         % A.show(pb, 2)[:400])
                        continue
                    if c0 != pa:
                        rep.violated(key, clause, construct=where,
                                     why="value at k_exp = 0 differs from the step A result: B(0) - A = %s"
                                         % A.show(alg.padd(c0, pa, -1), 2)[:400])
                        continue
                    # (d) nothing exported => the value is the same for every k_exp
                    parts = alg.term_addends(get(bc, "exp", "an"))
                    ok_d = parts is not None and all(oracle(x) for x in parts)
                    if ok_d:
                        t0 = tm.subst(t, dict((x, tm.ZERO) for x in parts))
                        p0 = A.scalar(t0)
                        ok_d = kid not in p0.atoms() and K not in A.input_syms(p0)
                    if not ok_d:
                        rep.violated(key + "/noexport", "with no exported energy %s is the same for every k_exp" % pstr(p),
                                     construct=where, why="k_exp survives when exp.nepus_an = exp.grid_an = 0: c1 = %s"
                                         % A.show(c1, 2)[:400])
                        continue
                    rep.discharged(key, clause, derivation="c0 == nf(step A); c1 = %s" % A.show(c1, 1)[:200])
        # whole-building totals, absolute and per m2
        for bname, ktag in (("balance", "total"), ("balance_m2", "total_m2")):
            bal = e.field(bname)
            for fb, fa in WE_AFFINE:
                lb = leaves(get(bal, "we", fb), (bname, "we", fb))
                la = dict((p[3:], t) for p, t, g in leaves(get(bal, "we", fa), (bname, "we", fa)))
                for p, t, gates in lb:
                    n_aff += 1
                    key = "C03/%s/%s/lm=%d" % (ktag, pstr(p), lm)
                    pb = A.scalar(t)
                    twin = la.get(p[3:])
                    c0, c1, ok = k_split(A, pb, kid)
                    hidden = ok and any(K in A.input_syms(x) for x in (c0, c1))
                    if twin is None or not ok or hidden:
                        rep.violated(key, "%s is affine in k_exp" % pstr(p), construct=where,
                                     why="k_exp occurs non-linearly or under a condition")
                    elif c0 != A.scalar(twin):
                        rep.violated(key, "%s at k_exp=0 equals the step A total" % pstr(p), construct=where,
                                     why="B(0) - A = %s" % A.show(alg.padd(c0, A.scalar(twin), -1), 2)[:300])
                    else:
                        rep.discharged(key, "%s = A + k_exp*c1" % pstr(p))
            # step A and the parts that make it up do not depend on k_exp
            we_t = get(bal, "we")
            for f in WE_K_FREE:
                try:
                    sub = get(we_t, f)
                except Exception:      # the whole-building record has fewer fields than the per-carrier one
                    continue
                for p, t, gates in leaves(sub, (bname, "we", f)):
                    n_leaf += 1
                    key = "C03/%s/%s/lm=%d" % (ktag, pstr(p), lm)
                    if K in tm.free_syms(t) or any(K in tm.free_syms(g) for g in gates):
                        rep.violated(key, "%s (step A) does not depend on k_exp" % pstr(p), construct=where)
                    else:
                        rep.discharged(key, "%s (step A) does not depend on k_exp" % pstr(p), nontrivial=False)
            for grp in ("used", "prod", "del", "exp"):
                for p, t, gates in leaves(get(bal, grp), (bname, grp)):
                    n_leaf += 1
                    key = "C03/%s/%s/lm=%d" % (ktag, pstr(p), lm)
                    if K in tm.free_syms(t):
                        rep.violated(key, "%s does not depend on k_exp" % pstr(p), construct=where)
                    else:
                        rep.discharged(key, "%s does not depend on k_exp" % pstr(p), nontrivial=False)
    rep.analysed = {"k_free_leaves": n_leaf, "affine_leaves": n_aff}
    rep.floor("affine-leaves", n_aff, 2 * (12 * 7))
    rep.floor("k-free-leaves", n_leaf, 2 * 12 * 40)
