"""C19 CLI options beat file metadata, which beats defaults; bad values are refused (DESIGN §5/C19).
Decided on the value graph of the binary's `main` (library entry points summarised, clap calls
uninterpreted atoms keyed by argument name)."""
from epbd import term as tm
from . import fmtdoc
from .c16 import MAIN_SUMMARIES
from .common import loc_of, AnchorMissing, short_loc

PARAMS = {
    # name: (cli argument, metadata key, default, argument position of energy_performance)
    "arearef": ("arearef", "CTE_AREAREF", 1.0, 3),
    "k_exp": ("kexp", "CTE_KEXP", 0.0, 2),
}


def find_calls(ev, name):
    out = []
    seen = set()
    for e in ev.effects:
        terms = list(e.gate)
        if isinstance(e.info, tuple):
            terms += [x for x in e.info if isinstance(x, tm.T)]
        elif isinstance(e.info, tm.T):
            terms.append(e.info)
        for t in terms:
            for s in tm.subterms(t):
                if s.op == "call" and s.a[0] == name and s.id not in seen:
                    seen.add(s.id)
                    out.append(s)
    return out


def mentions(t, pred):
    return any(pred(x) for x in tm.subterms(t))


def has_str(t, s):
    return mentions(t, lambda x: x.op == "str" and x.a[0] == s)


def has_cli(t, name):
    return mentions(t, lambda x: x.op in ("cli_value", "cli_values", "cli_present", "cli_value_os")
                    and x.a[0].op == "str" and x.a[0].a[0] == name)


def run(ctx, rep):
    rep.rule = ("decision structure of the terms reaching energy_performance(components, factors, k_exp, arearef, ..): "
                "ite(option present, option value, ite(metadata present, metadata value, documented default)); origin labels "
                "paired with the same conditions; exit(65) effects gated by parse failure and range violation for both origins; "
                "factor source file > -l > metadata > exit(64); the same term feeds echo, set_meta/--oc and the computation")
    rep.explanation = ("All 2x2 (option, metadata) combinations per parameter and the 8 factor-source combinations are decided "
                       "symbolically from main's dataflow, including configurations no CLI test exercises.")
    rep.assumptions = ["A5 clap: value_of/is_present of a defined argument reflect the command line; number_of_values(3)",
                       "literals NaN/inf outside the claim", "library entry points summarised (analysed on their own)"]
    body = ctx.find_public_fn(ctx.bin, "main")
    where = loc_of(body)
    ev, r, _a = ctx.eval_entry("bin", body, opaque=MAIN_SUMMARIES)
    eps = find_calls(ev, "summary:balance::energy_performance")
    if len(eps) != 1 or len(eps[0].a) != 6:
        rep.violated("C19/anchor/energy_performance", "main calls energy_performance(components, factors, k_exp, arearef, load_matching) once",
                     construct=where, why="found %d calls" % len(eps))
        return
    ep = eps[0]
    comps_arg, fp_arg = ep.a[1], ep.a[2]
    T = fmtdoc.Templates(ctx.bin)
    prints = [e for e in ev.effects if e.kind == "print" and e.info[0] == "stdout"]
    exits = [e for e in ev.effects if e.kind == "exit"]
    for pname, (cli, meta, default, pos) in PARAMS.items():
        val = ep.a[1 + pos]
        present = tm.mk("cli_present", tm.string(cli))
        key = "C19/Q1/%s" % pname
        v_cli = tm.subst(val, {present: tm.TRUE})
        v_rest = tm.subst(val, {present: tm.FALSE})
        cli_leaf = tm.mk("parsed", "f32", tm.mk("cli_value", tm.string(cli)))
        ok = v_cli is cli_leaf
        why = []
        if not ok:
            why.append("with the option given the value used is %s" % tm.show(v_cli, 4)[:150])
        meta_leaf = default_leaf = cond = None
        if v_rest.op == "ite":
            cond, meta_leaf, default_leaf = v_rest.a
            if not (meta_leaf.op == "parsed" and has_str(meta_leaf, meta) and not has_cli(meta_leaf, cli)):
                ok = False
                why.append("without the option the metadata value of %s is not used: %s" % (meta, tm.show(meta_leaf, 3)[:120]))
            if not (default_leaf.op == "num" and abs(float(default_leaf.a[0]) - default) < 1e-9):
                ok = False
                why.append("default is %s, documented %s" % (tm.show(default_leaf, 2), default))
            if not has_str(cond, meta) or has_cli(cond, cli):
                ok = False
                why.append("second-level condition is not the presence of metadata %s" % meta)
        else:
            ok = False
            why.append("without the option the value is not metadata-or-default: %s" % tm.show(v_rest, 3)[:150])
        if ok:
            rep.discharged(key, "%s: option > metadata %s > default %s" % (pname, meta, default),
                           derivation="ite(present(%s), cli, ite(has %s, meta, %s))" % (cli, meta, default))
        else:
            rep.violated(key, "%s used in the calculation is the option, else the metadata, else the default" % pname,
                         construct=where, why="; ".join(why))
            continue
        # origin label + echo
        label_ok = False
        echo_ok = False
        for p in prints:
            fa = p.info[1]
            if fa.op != "fmtargs":
                continue
            args = [a for a in fa.a[2:] if a.op == "fmtarg"]
            vals = [a.a[2] for a in args]
            if val in vals:
                echo_ok = True
                for lab in vals:
                    if lab is val:
                        continue
                    l_cli = tm.subst(lab, {present: tm.TRUE})
                    l_rest = tm.subst(lab, {present: tm.FALSE})
                    if l_cli.op == "str" and l_cli.a[0] == "usuario" and l_rest.op == "ite" and l_rest.a[0] is cond \
                            and l_rest.a[1].op == "str" and l_rest.a[1].a[0] == "metadatos" \
                            and l_rest.a[2].op == "str" and l_rest.a[2].a[0] == "predefinido":
                        label_ok = True
        if echo_ok and label_ok:
            rep.discharged(key + "/echo", "the value used is echoed with its origin (usuario / metadatos / predefinido) paired with the same conditions")
        else:
            rep.violated(key + "/echo", "the value used is echoed with its true origin", construct=where,
                         why="echo of the used value found: %s; origin label paired: %s" % (echo_ok, label_ok))
        # Q2 validation on both origins
        for origin, leaf in (("option", cli_leaf), ("metadata", meta_leaf)):
            src = leaf.a[1]
            parse_gate = tm.not_(tm.mk("parses", "f32", src))
            got_parse = any(e.info.op == "num" and e.info.a[0] == 65 and parse_gate in e.gate for e in exits)
            got_range = False
            for e in exits:
                if e.info.op == "num" and e.info.a[0] == 65 and e.gate:
                    last = e.gate[-1]
                    if last is not parse_gate and mentions(last, lambda x: x is leaf) and range_ok(pname, last, leaf):
                        got_range = True
            k2 = "C19/Q2/%s/%s" % (pname, origin)
            if got_parse and got_range:
                rep.discharged(k2, "%s from the %s: non-numeric text and out-of-range values exit with 65" % (pname, origin))
            else:
                rep.violated(k2, "%s given by %s is validated (numeric, in range) before use" % (pname, origin), construct=where,
                             why="exit(65) on parse failure: %s; exit(65) on the documented range: %s" % (got_parse, got_range))
        # Q3 the text recorded is a lossless rendering of the value (else the saved file re-evaluates differently)
        precs = []
        for t in tm.subterms(comps_arg):
            if t.op == "fmtargs" and any(a.op == "fmtarg" and a.a[2] is val for a in t.a[2:]):
                for seg in fmtdoc.expand(t, T):
                    if seg[0] == "hole" and seg[1].value is val:
                        precs.append(seg[1].precision)
        kp = "C19/Q3/%s/lossless" % pname
        if not precs:
            rep.violated(kp, "the effective %s is recorded as text in the metadata" % pname, construct=where,
                         why="no format template writing the value into the components was found")
        elif all(p is None for p in precs):
            rep.discharged(kp, "metadata %s is written with the shortest round-trip rendering of the value (no precision cut)" % meta)
        else:
            rep.violated(kp, "the %s recorded in the saved components re-reads to the value that was used" % pname, construct=where,
                         why="written with precision .%s: values the validation admits (e.g. %s) are altered in the saved file"
                             % ([p for p in precs if p is not None][0], {"k_exp": "0.25"}.get(pname, "100.456")))
        # Q3 same value recorded in the emitted components
        k3 = "C19/Q3/%s" % pname
        if mentions(comps_arg, lambda x: x is val) and has_str(comps_arg, meta):
            rep.discharged(k3, "the value used is written back to metadata %s of the components that are evaluated/saved" % meta)
        else:
            rep.violated(k3, "the effective %s is recorded in the metadata of the emitted components" % pname, construct=where)
    # Q3' the metadata are written on every path (definite writes along the chain of set_meta summaries)
    ev2, r2, _a2 = ctx.eval_entry("bin", body, opaque=MAIN_SUMMARIES + ["set_meta"])
    eps2 = find_calls(ev2, "summary:balance::energy_performance")
    if len(eps2) == 1:
        w = definite_writes(eps2[0].a[1])
        for pname, (cli, meta, default, pos) in PARAMS.items():
            kq = "C19/Q3/%s/always-written" % pname
            v = w.get(meta)
            used = eps2[0].a[pos + 1] if pos + 1 < len(eps2[0].a) else None
            ok = v is not None and used is not None and any(x is used for x in tm.subterms(v))
            if ok:
                rep.discharged(kq, "metadata %s of the evaluated / saved components is set to the value used on every path" % meta)
            else:
                rep.violated(kq, "the effective %s is recorded in the saved components whatever the input already contained" % pname,
                             construct=where, why=("on some path %s is not (re)written with the value used" % meta) if v is None
                             else "the text written does not contain the value passed to energy_performance")
    else:
        rep.violated("C19/Q3/anchor", "main calls energy_performance once (with set_meta summarised)", construct=where)
    # an option with a clap default is always "given": the metadata / default levels would be dead
    dv = []
    prog = ctx.bin
    for b in prog.bodies.values():
        for ex in b["exprs"]:
            if ex["k"] == "call":
                t = prog.types[ex["fty"]]
                if t["k"] == "fndef" and t["path"].startswith("clap::Arg") and t["name"].startswith("default_value"):
                    dv.append(ex["loc"])
    if dv:
        rep.violated("C19/Q1/clap-default", "an option that is not given is absent (so metadata and defaults can apply)",
                     construct=short_loc(dv[0]), why="a clap argument defines default_value: value_of() is then always Some")
    else:
        rep.discharged("C19/Q1/clap-default", "no argument has a clap-level default (absence is visible to the precedence logic)", nontrivial=False)
    # --oc writes the evaluated components
    wr = [e for e in ev.effects if e.kind == "write_file"]
    oc = [e for e in wr if mentions(e.info[1], lambda x: x.op == "display" and x.a[1] is comps_arg)]
    if oc:
        rep.discharged("C19/Q3/oc", "--oc writes the same components value that is evaluated (after all set_meta calls)")
    else:
        rep.violated("C19/Q3/oc", "--oc writes the components that are evaluated, with the effective metadata", construct=where)
    # factor source precedence
    fp = fp_arg
    if fp.op == "ite" and any(x.op == "call" and "strip" in str(x.a[0]) for x in (fp.a[1],)):
        strip_cond = fp.a[0]
        if has_cli(strip_cond, "nosimplificafps"):
            rep.discharged("C19/Q1/strip", "factors are simplified unless -F is given (and components exist)", nontrivial=False)
        fp = fp.a[2]
    P_file = tm.mk("cli_present", tm.string("archivo_factores"))
    P_loc = tm.mk("cli_present", tm.string("fps_loc"))
    combos = [("file", {P_file: tm.TRUE}, "wfactors_from_str", "archivo_factores"),
              ("file+loc", {P_file: tm.TRUE, P_loc: tm.TRUE}, "wfactors_from_str", "archivo_factores"),
              ("loc", {P_file: tm.FALSE, P_loc: tm.TRUE}, "wfactors_from_loc", "fps_loc"),
              ("meta", {P_file: tm.FALSE, P_loc: tm.FALSE}, "wfactors_from_loc", None)]
    for cname, sub, fn, cliarg in combos:
        v = tm.subst(fp, sub)
        key = "C19/Q1/factors/%s" % cname
        head = v
        n = 0
        while head.op in ("proj", "ite") and n < 6:
            head = head.a[0] if head.op == "proj" else head.a[1]
            n += 1
        ok = head.op == "call" and fn in str(head.a[0])
        if ok and cliarg:
            ok = has_cli(head.a[1], cliarg)
        if ok and cliarg is None:
            ok = has_str(head.a[1], "CTE_LOCALIZACION") and not has_cli(head.a[1], "fps_loc")
        if ok:
            rep.discharged(key, "factor source with %s: %s" % (cname, fn))
        else:
            rep.violated(key, "factors file > -l location > CTE_LOCALIZACION metadata", construct=where,
                         why="with %s the factors come from %s" % (cname, tm.show(head, 3)[:160]))
    ex64 = [e for e in exits if e.info.op == "num" and e.info.a[0] == 64]
    if ex64 and all(tm.not_(P_file) in e.gate or mentions(tm.and_(*e.gate), lambda x: x is P_file) for e in ex64):
        rep.discharged("C19/Q1/factors/none", "without any factor source the program exits with 64")
    else:
        rep.violated("C19/Q1/factors/none", "without any factor source the program exits with 64 (usage)", construct=where)
    # RED1 / RED2 and defaults
    for call in find_calls(ev, "summary:cte::wfactors_from_str") + find_calls(ev, "summary:cte::wfactors_from_loc"):
        user = call.a[-2]
        dflt = call.a[-1]
        tag = "str" if "from_str" in call.a[0] else ("loc" if has_cli(call.a[1], "fps_loc") else "meta")
        for i, red in enumerate(("CTE_RED1", "CTE_RED2")):
            key = "C19/Q1/%s/%s" % (red, tag)
            if user.op != "adt":
                rep.underivable(key, "user factors are passed as a record", construct=where)
                continue
            rv = user.a[2 + i]
            pr = tm.mk("cli_present", tm.string(red))
            a = tm.subst(rv, {pr: tm.TRUE})
            b = tm.subst(rv, {pr: tm.FALSE})
            ok = a.op == "adt" and a.a[0] == "Option" and a.a[1] == 1 and has_cli(a, red) \
                and has_str(b, red) and not has_cli(b, red)
            d = dflt.a[2 + i] if dflt.op == "adt" else None
            dok = d is not None and d.op == "adt" and [x.a[0] if x.op == "num" else None for x in d.a[2:]] == [0, 1.3, 0.3]
            if ok and dok:
                rep.discharged(key, "%s: option > metadata; built-in default (0, 1.3, 0.3)" % red)
            else:
                rep.violated(key, "%s: user option > file metadata > default (0, 1.3, 0.3)" % red, construct=where,
                             why="option side ok=%s, default=%s" % (ok, tm.show(d, 3) if d is not None else None))
    # Q4 result printed only on success
    plain = [p for p in prints if mentions(p.info[1], lambda x: x.op == "call" and "to_plain" in str(x.a[0]))]
    if plain and all(any(mentions(g, lambda x: x is ep) for g in p.gate) for p in plain):
        rep.discharged("C19/Q4/result-gated", "the result is printed only when energy_performance succeeded")
    else:
        rep.violated("C19/Q4/result-gated", "no result is printed on an error path", construct=where)
    # the library half of the RED1/RED2 precedence (main hands option-or-metadata to the pipelines, which are
    # summarised above): set_user_wfactors overrides the file's value when a user value is given (C07/F3)
    from . import c07
    from .common import Report
    sub7 = Report("C07")
    c07.run(ctx, sub7)
    f3 = [o for o in sub7.obligations if o.key.startswith("C07/F3/")]
    if len(f3) < 3:
        rep.violated("C19/Q1/RED/library/anchor", "the factor pipelines are analysable", why="%d C07/F3 obligations" % len(f3))
    for o in f3:
        k = "C19/Q1/RED/library/" + "/".join(o.key.split("/")[2:])
        if o.status == "discharged":
            rep.discharged(k, "user RED factor beats the factor source, which beats the built-in default: " + o.clause, nontrivial=False)
        else:
            rep.violated(k, "a RED1/RED2 factor given by option or metadata is the one used, whatever the factor source contains",
                         construct=o.construct, why=o.why)
    # "otherwise the metadata of the components file if present": the reader takes every #META / #CTE_ line of the text,
    # wherever it stands (the list of metadata is a filter-map of the list of all lines, nothing positional in between)
    lib = ctx.lib
    pb = ctx.find_impl_method(lib, "FromStr", "Components", "from_str")
    ev3, r3, _a3 = ctx.eval_entry("lib", pb, opaque=["components::Components::normalize"])
    ncalls = [t for t in tm.subterms(r3) if t.op == "call" and "normalize" in str(t.a[0])]
    key = "C19/Q5/metadata-lines"
    if len(ncalls) != 1:
        rep.violated(key + "/anchor", "parsing components ends in one normalisation of what was read", construct=loc_of(pb))
    else:
        cmeta = tm.proj(ncalls[0].a[1], 0, 0, "meta")
        bad = []
        lits = set()
        x = cmeta
        found_lines = False
        for _ in range(40):
            if not isinstance(x, tm.T):
                break
            if x.op == "lines":
                found_lines = True
                break
            if x.op in ("collect", "map", "iter", "cloned", "copied", "filter_map"):
                x = x.a[0]
            elif x.op == "filter":
                for t in tm.subterms(x.a[1]):
                    if t.op == "starts_with" and t.a[1].op in ("str", "char"):
                        lits.add(t.a[1].a[0])
                    elif t.op in ("position_val", "index", "len", "call"):
                        bad.append("filter uses %s" % t.op)
                x = x.a[0]
            else:
                bad.append("%s" % (x.a[0] if x.op == "call" else x.op))
                break
        if not found_lines and not bad:
            bad.append("the metadata list is not derived from the lines of the text")
        if not (lits >= {"#META", "#CTE_"}):
            bad.append("line selection literals %s" % sorted(lits))
        if bad:
            rep.violated(key, "every metadata line of the components file is read, wherever it stands in the file",
                         construct=loc_of(pb), why="; ".join(str(b) for b in bad)[:300])
        else:
            rep.discharged(key, "metadata = every line of the text starting with #META or #CTE_, parsed (no positional selection)")
    rep.analysed = {"exit_sites": len(exits), "stdout_prints": len(prints)}
    rep.floor("exit-sites", len(exits), 14)


def range_ok(pname, cond, leaf):
    """The documented range test: k_exp outside [0,1]; area <= 0.001."""
    nums = sorted(float(x.a[0]) for x in tm.subterms(cond) if x.op == "num")
    # the refusal condition is evaluated at sample values of the parsed number, the boundaries included:
    #   k_exp: refused outside [0, 1], accepted at 0, 1 and inside;  area: refused up to and including 0.001
    pts = ([(-0.1, True), (1.1, True), (0.0, False), (1.0, False), (0.5, False)] if pname == "k_exp"
           else [(0.0005, True), (0.001, True), (0.0, True), (0.002, False), (1.0, False)])
    decided = 0
    for v, refused in pts:
        r = tm.subst(cond, {leaf: tm.num(v)})
        if r is tm.TRUE or r is tm.FALSE:
            decided += 1
            if (r is tm.TRUE) != refused:
                return False
    if decided == len(pts):
        return True
    if any(x.op in ("call", "range_contains") for x in tm.subterms(cond)):
        return False          # the test goes through a function without a model: the boundary is not known (fail closed)
    if pname == "k_exp":
        return 0.0 in nums and 1.0 in nums
    return any(abs(n - 0.001) < 1e-9 for n in nums)


def definite_writes(t, depth=0):
    """Metadata keys certainly written (and with which text) in a components value built by a chain of
    summarised set_meta calls; at a branch only writes common to both sides count."""
    if depth > 60:
        return {}
    if t.op == "havoc" and isinstance(t.a[0], tm.T) and t.a[0].op == "call" and str(t.a[0].a[0]).endswith("set_meta"):
        c = t.a[0]
        prior = [x for x in c.a if isinstance(x, tm.T) and x.op == "prior"]
        w = definite_writes(prior[0].a[1], depth + 1) if prior else {}
        strs = [x for x in c.a[1:] if isinstance(x, tm.T) and x.op == "str"]
        vals = [x for x in c.a[1:] if isinstance(x, tm.T) and x.op not in ("str", "prior", "ref")]
        if strs and vals:
            w = dict(w)
            w[strs[0].a[0]] = vals[0]
        return w
    if t.op == "ite":
        a = definite_writes(t.a[1], depth + 1)
        b = definite_writes(t.a[2], depth + 1)
        return dict((k, v) for k, v in a.items() if k in b and b[k] is v)
    return {}
