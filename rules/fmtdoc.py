"""Symbolic documents: the value graph of a formatter expanded through the format_args!
templates of the expanded AST (pieces, holes with trait/precision, argument sources)."""
import re

from epbd import term as tm


class Hole(object):
    def __init__(self, kind, tykey, value, precision, trait, where):
        self.kind = kind            # 'value'
        self.tykey = tykey
        self.value = value
        self.precision = precision
        self.trait = trait
        self.where = where

    def __repr__(self):
        return "{%s:%s .%s}" % (self.tykey.split("::")[-1], tm.show(self.value, 2)[:40], self.precision)


class Templates(object):
    def __init__(self, prog):
        self.by_callsite = {}
        for t in prog.templates:
            self.by_callsite.setdefault(t["callsite"], []).append(t)
        if prog.other is not None:
            for t in prog.other.templates:
                self.by_callsite.setdefault(t["callsite"], []).append(t)

    def find(self, key, nargs):
        c = self.by_callsite.get(key, [])
        if len(c) == 1:
            return c[0]
        for t in c:
            if len(t["args"]) >= nargs:
                return t
        return c[0] if c else None


def arg_index(tmpl, fmtarg, position):
    """Which AST argument a runtime fmt argument corresponds to."""
    src = fmtarg.a[3]
    if isinstance(src, tuple):
        if src[0] == "argsfield":
            return src[1]
        if src[0] == "loc":
            for i, a in enumerate(tmpl["args"]):
                if a["loc"] == src[1]:
                    return i
    return None


def expand(t, T, depth=0):
    """Term -> list of segments: ('lit', str) | ('hole', Hole) | ('rep', [docs], sep) |
    ('alt', cond, docA, docB) | ('opaque', term)"""
    if depth > 40:
        return [("opaque", t)]
    op = t.op
    if op == "str":
        return [("lit", t.a[0])]
    if op == "format":
        return expand(t.a[0], T, depth + 1)
    if op == "fmtargs":
        key = t.a[0]
        args = list(t.a[2:])
        tmpl = T.find(key, len(args))
        if tmpl is None:
            return [("opaque", t)]
        by_index = {}
        unknown = []
        for pos, a in enumerate(args):
            if a.op != "fmtarg":
                unknown.append(a)
                continue
            i = arg_index(tmpl, a, pos)
            if i is None:
                unknown.append(a)
            else:
                by_index.setdefault(i, []).append(a)
        out = []
        for piece in tmpl["pieces"]:
            if "lit" in piece:
                out.append(("lit", piece["lit"]))
                continue
            cands = by_index.get(piece["arg"], [])
            want_trait = piece["trait"]
            a = None
            for c in cands:
                if c.a[0] == want_trait or (want_trait == "Display" and c.a[0] == "Display"):
                    a = c
            if a is None and cands:
                a = cands[0]
            if a is None:
                out.append(("opaque", t))
                continue
            prec = None
            if piece.get("precision"):
                prec = piece["precision"].get("lit", "arg")
            out.extend(expand_value(a.a[2], a.a[1], prec, piece["trait"], T, depth + 1, tmpl["callsite"]))
        return out
    if op == "ite":
        return [("alt", t.a[0], expand(t.a[1], T, depth + 1), expand(t.a[2], T, depth + 1))]
    if op == "join":
        elems = list_elements(t.a[0])
        sep = t.a[1].a[0] if t.a[1].op == "str" else None
        return [("rep", [expand(e, T, depth + 1) for e in elems], sep, t.a[0])]
    if op == "fmt_append":
        return expand(t.a[0], T, depth + 1) + expand(t.a[1], T, depth + 1)
    if op == "fmtbuf":
        return []
    return [("opaque", t)]


def expand_value(v, tykey, prec, trait, T, depth, where):
    if v.op == "join" and escape_image(v) is not None:
        return [("hole", Hole("value", tykey, v, prec, trait, where))]       # a character-wise escape of a text
    if v.op in ("format", "fmtargs", "join", "str") or (v.op == "ite" and tykey.endswith("String")):
        return expand(v, T, depth)
    return [("hole", Hole("value", tykey, v, prec, trait, where))]


def list_elements(v):
    """Possible element terms of a vector-of-strings term."""
    out = []
    seen = set()

    def walk(x):
        if x.id in seen:
            return
        seen.add(x.id)
        if x.op == "seq":
            out.extend(x.a)
        elif x.op == "push":
            walk(x.a[0])
            out.append(x.a[1])
        elif x.op == "ite":
            walk(x.a[1])
            walk(x.a[2])
        elif x.op == "collect":
            it = x.a[0]
            if it.op == "map":
                e = tm.fresh("el")
                out.append(tm.apply_lam(it.a[1], [e]))
            elif it.op == "eiter":
                for i in range(len(it.a) // 2):
                    out.append(it.a[2 * i + 1])
            else:
                out.append(tm.mk("elem_of_iter", it))
        elif x.op == "sorted":
            walk(x.a[0])
        else:
            out.append(tm.mk("elem_of", x))
    walk(v)
    return out


# ------------------------------------------------------------------------------------------ XML
TAG = re.compile(r"<(/?)([A-Za-z_][\w.\-]*)((?:\s+[^<>]*?)?)(/?)>|<!--.*?-->", re.S)


class XmlError(Exception):
    pass


def xml_check(doc, classify, stack=None, top=True):
    """Well-formedness of a symbolic document: literal text must tokenise into balanced tags;
    sub-documents under `rep`/`alt` must be balanced on their own; holes must be safe."""
    stack = [] if stack is None else stack
    base = len(stack)
    for seg in doc:
        k = seg[0]
        if k == "lit":
            scan_text(seg[1], stack)
        elif k == "hole":
            verdict = classify(seg[1])
            if verdict is not True:
                raise XmlError("unsafe hole %r: %s" % (seg[1], verdict))
        elif k == "rep":
            for d in seg[1]:
                sub = []
                xml_check(d, classify, sub, False)
                if sub:
                    raise XmlError("repeated fragment leaves <%s> open" % sub[-1])
        elif k == "alt":
            for d in (seg[2], seg[3]):
                sub = []
                xml_check(d, classify, sub, False)
                if sub:
                    raise XmlError("conditional fragment leaves <%s> open" % sub[-1])
        elif k == "opaque":
            raise XmlError("part of the document could not be derived: %s" % tm.show(seg[1], 3)[:120])
    if top and len(stack) != base:
        raise XmlError("element <%s> is never closed" % stack[-1])
    return stack


def scan_text(text, stack):
    pos = 0
    for m in TAG.finditer(text):
        between = text[pos:m.start()]
        check_chars(between)
        pos = m.end()
        if m.group(0).startswith("<!--"):
            continue
        closing, name, _attrs, selfclose = m.group(1), m.group(2), m.group(3), m.group(4)
        if closing:
            if not stack:
                raise XmlError("closing tag </%s> without an open element" % name)
            top = stack.pop()
            if top != name:
                raise XmlError("closing tag </%s> does not match open <%s>" % (name, top))
        elif not selfclose:
            stack.append(name)
    check_chars(text[pos:])


ENTITY = re.compile(r"&(amp|lt|gt|apos|quot|#\d+|#x[0-9a-fA-F]+);")


def check_chars(s):
    if "<" in s or ">" in s and False:
        raise XmlError("stray '<' in literal text %r" % s[:40])
    t = ENTITY.sub("", s)
    if "&" in t:
        raise XmlError("stray '&' in literal text %r" % s[:40])


# ------------------------------------------------------------------------------------------ escaping
CLASSES = ["&", "<", ">", '"', "'", "\\", "a"]
SAFE = re.compile(r"^([^<&]|&(amp|lt|gt|apos|quot);)*$")


def escape_image(t):
    """If t is a chain replace(...replace(x, c1, s1)..., cn, sn) over a base string x return
    (x, {class char: image}) computed by running the chain on each character class."""
    # the same homomorphism written as a loop over the characters: join(map(chars(x), |c| image(c)), "")
    if t.op == "join" and t.a[1].op == "str" and t.a[1].a[0] == "" and t.a[0].op == "collect" and t.a[0].a[0].op == "map" \
            and t.a[0].a[0].a[0].op == "chars" and isinstance(t.a[0].a[0].a[1], tm.T) and t.a[0].a[0].a[1].op == "lam":
        lam = t.a[0].a[0].a[1]
        img = {}
        for c in CLASSES:
            r = tm.apply_lam(lam, [tm.mk("char", c)])
            if r.op not in ("str", "char") or not isinstance(r.a[0], str):
                return None
            img[c] = r.a[0]
        return t.a[0].a[0].a[0].a[0], img
    chain = []
    cur = t
    while cur.op == "replace":
        s, frm, to = cur.a
        if frm.op not in ("char", "str") or to.op != "str":
            return None
        chain.append((frm.a[0], to.a[0]))
        cur = s
    if not chain:
        return None
    chain.reverse()
    img = {}
    for c in CLASSES:
        s = c
        for frm, to in chain:
            s = s.replace(frm, to)
        img[c] = s
    return cur, img
