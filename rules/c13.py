"""C13 Renewable energy ratios are proper fractions and perimeters are nested (DESIGN §5/C13)."""
from epbd import term as tm, alg, order
from . import epmodel
from .epmodel import get
from .common import loc_of, AnchorMissing
from .c01 import make_base_nonneg


def carrier_flags(ctx, method):
    """Evaluate the public predicate Carrier::<method> on every variant."""
    body = ctx.find_public_fn(ctx.lib, "Carrier::%s" % method)
    out = {}
    for ci, (cname, _f) in sorted(tm.ADT_NAMES["Carrier"].items()):
        ev, r, _a = ctx.eval_entry("lib", body, args=[tm.adt("Carrier", ci)])
        out[cname] = r
    return out, body


def run(ctx, rep):
    rep.rule = ("N1: rer/rer_nrb/rer_onst terms equal the documented ratios of the *reported* totals with the zero guards; "
                "N2: perimeter predicates evaluated on all 12 carriers: ONST ⊆ NRBY, ELECTRICIDAD in neither; "
                "N3: nesting differences at k_exp=0 proved non-negative with the order rules for non-negative factors")
    rep.explanation = ("RER formulas are compared as normal forms with the documented definitions built from the "
                       "returned balance itself; nesting is attempted as a sign derivation over the linear forms.")
    rep.assumptions = ["A1 non-negative inputs", "regulatory factors non-negative (for N3)", "A2 real arithmetic", "k_exp = 0 for N3"]
    near, nb = carrier_flags(ctx, "is_nearby")
    ons, ob = carrier_flags(ctx, "is_onsite")
    for c in near:
        key = "C13/N2/%s" % c
        if near[c] not in (tm.TRUE, tm.FALSE) or ons[c] not in (tm.TRUE, tm.FALSE):
            rep.underivable(key, "perimeter membership of %s is a constant" % c, construct=loc_of(nb))
            continue
        ok = not (ons[c] is tm.TRUE and near[c] is tm.FALSE)
        if c == "ELECTRICIDAD":
            ok = ok and near[c] is tm.FALSE and ons[c] is tm.FALSE
        if ok:
            rep.discharged(key, "on-site ⊆ nearby for %s (electricity in neither list)" % c, nontrivial=(ons[c] is tm.TRUE))
        else:
            rep.violated(key, "on-site perimeter is contained in the nearby perimeter; electricity is in neither list",
                         construct=loc_of(ob), why="is_onsite=%s is_nearby=%s" % (tm.show(ons[c]), tm.show(near[c])))
    want_on = {"EAMBIENTE", "TERMOSOLAR"}
    want_near = {"BIOMASA", "BIOMASADENSIFICADA", "RED1", "RED2", "EAMBIENTE", "TERMOSOLAR"}
    got_on = set(c for c in ons if ons[c] is tm.TRUE)
    got_near = set(c for c in near if near[c] is tm.TRUE)
    if got_on == want_on and got_near == want_near:
        rep.discharged("C13/N2/lists", "perimeter lists are the documented ones", derivation="ONST=%s NRBY=%s" % (sorted(got_on), sorted(got_near)))
    else:
        rep.violated("C13/N2/lists", "perimeter lists are the documented ones (B.23: solid biomass, district, ambient, solar)",
                     construct=loc_of(nb), why="ONST=%s NRBY=%s" % (sorted(got_on), sorted(got_near)))
    for lm in (False, True):
        e = epmodel.ep(ctx, lm)
        where = loc_of(e.body)
        A = alg.Algebra()
        bal = e.field("balance")
        ren = get(bal, "we", "b", "ren")
        nren = get(bal, "we", "b", "nren")
        tot = tm.add(ren, nren)
        want = tm.ite(tm.eq(tot, tm.ZERO), tm.ZERO, tm.div(ren, tot))
        key = "C13/N1/rer/lm=%d" % lm
        if A.scalar(e.field("rer")) == A.scalar(want):
            rep.discharged(key, "rer = ren/(ren+nren) of the reported step-B total, 0 when the total is 0")
        else:
            rep.violated(key, "rer = ren/(ren+nren) of the reported total (0 when the total is zero)", construct=where,
                         why="rer - expected = %s" % A.show(alg.padd(A.scalar(e.field("rer")), A.scalar(want), -1), 2)[:400])
        K = e.params["k_exp"]
        carriers = dict((cn, (pres, bc)) for (ci, cn, pres, bc) in e.carriers() if pres is not tm.FALSE)

        def gated(cn, *path):
            pres, bc = carriers[cn]
            return tm.ite(pres, get(bc, *path), tm.ZERO)
        x_on = tm.ZERO
        x_nb = tm.ZERO
        for cn in sorted(carriers):
            if cn in got_on:
                x_on = tm.add(x_on, gated(cn, "we", "b", "ren"))
            if cn in got_near:
                x_nb = tm.add(x_nb, gated(cn, "we", "b", "ren"))
        if "ELECTRICIDAD" in carriers:
            el_on = gated("ELECTRICIDAD", "we", "del_onst", "ren")
            el_cg = gated("ELECTRICIDAD", "we", "del_cgn", "ren")
            el_xa = gated("ELECTRICIDAD", "we", "exp_a", "ren")
            x_on = tm.add(x_on, el_on)
            x_nb = tm.sub(tm.add(tm.add(x_nb, el_on), el_cg), tm.mul(tm.sub(tm.ONE, K), el_xa))
        for nm, x in (("rer_onst", x_on), ("rer_nrb", x_nb)):
            key = "C13/N1/%s/lm=%d" % (nm, lm)
            w = tm.ite(tm.lt(tm.ZERO, tot), tm.div(x, tot), tm.ZERO)
            got = A.scalar(e.field(nm))
            if got == A.scalar(w):
                rep.discharged(key, "%s = (documented renewable energy of the perimeter)/total when total > 0, else 0" % nm)
            else:
                rep.violated(key, "%s = perimeter renewable energy / reported total (0 unless total > 0)" % nm, construct=where,
                             why="got - expected = %s" % A.show(alg.padd(got, A.scalar(w), -1), 2)[:500])
        # N3 nesting at k_exp = 0
        P = order.Prover(A, nonneg_with_factors(e))
        P.budget = 20000
        zeroK = {K: tm.ZERO}
        ren0 = A.scalar(tm.subst(ren, zeroK))
        on0 = A.scalar(tm.subst(x_on, zeroK))
        nb0 = A.scalar(tm.subst(x_nb, zeroK))
        for key, clause, p in (("C13/N3/nrb>=onst", "RER_nrb >= RER_onst", alg.padd(nb0, on0, -1)),
                               ("C13/N3/rer>=nrb", "RER >= RER_nrb", alg.padd(ren0, nb0, -1))):
            P.steps = 0
            if P.nonneg(p):
                rep.discharged(key + "/lm=%d" % lm, clause + " (numerators, k_exp = 0, non-negative factors)",
                               derivation="rules %s" % sorted(P.used_rules))
            else:
                rep.underivable(key + "/lm=%d" % lm, clause + " for every building (k_exp = 0, non-negative factors)",
                                construct=where, why="difference of the numerators is not a sum of non-negative terms: %s"
                                % A.show(p, 2)[:500])
    # the RER fractions are proper only if the weighted exports are weighted with the documented factors; the one
    # factor the code derives itself (cogenerated electricity) is decided by C02's shape rule, re-stated here
    from . import c02
    from .common import Report
    sub2 = Report("C02")
    c02.run(ctx, sub2)
    cg = [o for o in sub2.obligations if o.key.startswith("C02/cgn/")]
    if not cg:
        rep.violated("C13/N4/cgn/anchor", "the derived cogeneration factor is analysable", why="no C02/cgn obligation")
    for o in cg:
        k = "C13/N4/cgn/" + "/".join(o.key.split("/")[2:])
        if o.status == "discharged":
            rep.discharged(k, "exported cogenerated electricity is weighted with Σ F·input / Σ production (all production lines): " + o.clause, nontrivial=False)
        else:
            rep.violated(k, "the resources attributed to exported cogenerated electricity never exceed those delivered for it",
                         construct=o.construct, why=o.why)
    rep.analysed = {"carriers": 12}


def nonneg_with_factors(e):
    base = make_base_nonneg(e)
    wf = e.params.get("wfactors")

    def b(atom):
        if base(atom):
            return True
        t = atom.term
        if t is not None and atom.kind in ("term", "let"):
            fs = tm.free_syms(t)
            if atom.kind == "term" and fs and all(s is wf for s in fs):
                return True       # a regulatory weighting factor (assumed non-negative)
            if atom.kind == "let":
                return True       # derived cogeneration factor: non-negative combination (C02)
        return False
    return b
