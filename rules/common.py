"""Shared infrastructure of the rule packs: obligations, reports, the analysis context."""
import os
import sys
import time

VERIF = os.path.dirname(os.path.dirname(os.path.abspath(__file__)))
if VERIF not in sys.path:
    sys.path.insert(0, VERIF)

from epbd import api, term as tm          # noqa: E402
from epbd.prog import short_loc            # noqa: E402


class Obligation(object):
    __slots__ = ("key", "clause", "status", "construct", "why", "derivation", "nontrivial")

    def __init__(self, key, clause, status, construct=None, why=None, derivation=None,
                 nontrivial=True):
        self.key = key                # stable key: rule/entry/field[/discriminator] (no line numbers)
        self.clause = clause          # text of what is decided
        self.status = status          # discharged | violated | underivable
        self.construct = construct    # file:line of the offending / analysed construct (reported only)
        self.why = why
        self.derivation = derivation
        self.nontrivial = nontrivial

    def to_json(self):
        d = {"key": self.key, "clause": self.clause, "status": self.status}
        if self.construct:
            d["construct"] = self.construct
        if self.why:
            d["why"] = self.why
        if self.derivation:
            d["derivation"] = self.derivation
        return d


class Report(object):
    def __init__(self, prop):
        self.prop = prop
        self.obligations = []
        self.analysed = {}
        self.assumptions = []
        self.rule = ""
        self.explanation = ""
        self.floors = {}         # name -> (measured, floor)
        self.errors = []         # checker errors (self-test failures)

    def add(self, key, clause, ok, construct=None, why=None, derivation=None, underivable=False,
            nontrivial=True):
        status = "discharged" if ok else ("underivable" if underivable else "violated")
        o = Obligation(key, clause, status, construct, why, derivation, nontrivial)
        self.obligations.append(o)
        return o

    def discharged(self, key, clause, derivation=None, construct=None, nontrivial=True):
        return self.add(key, clause, True, construct=construct, derivation=derivation,
                        nontrivial=nontrivial)

    def violated(self, key, clause, construct=None, why=None):
        return self.add(key, clause, False, construct=construct, why=why)

    def underivable(self, key, clause, construct=None, why=None):
        return self.add(key, clause, False, construct=construct, why=why, underivable=True)

    def floor(self, name, measured, floor):
        """Instance floor: fail closed when a rule matches fewer instances than confirmed by hand."""
        self.floors[name] = (measured, floor)
        if measured < floor:
            self.violated("floor/" + name,
                          "rule '%s' must match at least %d instances" % (name, floor),
                          why="matched only %d (anchor moved or recogniser lost the construct)" % measured)

    def selftest(self, name, ok, detail=""):
        if not ok:
            self.errors.append("self-test '%s' failed %s" % (name, detail))


class Ctx(object):
    """Analysis context: facts of the current tree + memoised evaluations."""

    def __init__(self, facts_dir, tier="quick", seed=0, build_info=None):
        self.world = api.World(facts_dir)
        self.tier = tier
        self.seed = seed
        self.build_info = build_info or {}
        self._memo = {}
        self.t0 = time.time()

    @property
    def lib(self):
        return self.world.lib

    @property
    def bin(self):
        return self.world.bin

    def memo(self, key, fn):
        if key not in self._memo:
            self._memo[key] = fn()
        return self._memo[key]

    def find_public_fn(self, prog, name, must=True):
        """A hand-written body whose path ends in `name`."""
        bs = [b for b in prog.find_body(name) if prog.is_hand_written(b)]
        if not bs:
            if must:
                raise AnchorMissing(name)
            return None
        return bs[0]

    def find_impl_method(self, prog, trait_suffix, self_ty_suffix, method):
        """Body of `method` in `impl Trait for SelfTy` (matched on the last path segments)."""
        for im in prog.impls:
            tr = im.get("trait")
            if not tr or tr.split("::")[-1] != trait_suffix:
                continue
            st = im.get("self_ty_s", "")
            if st.split("::")[-1] != self_ty_suffix:
                continue
            for it in im["items"]:
                if it["name"] == method:
                    b = prog.body(it["def"])
                    if b is not None:
                        return b
        raise AnchorMissing("<%s as %s>::%s" % (self_ty_suffix, trait_suffix, method))

    def eval_entry(self, prog_kind, body, args=None, literal=None, opaque=None):
        """Evaluate a body with symbolic inputs; `literal` maps parameter names to terms;
        `opaque`: def keys / paths of callees summarised instead of inlined."""
        ev = self.world.ev(prog_kind)
        if opaque:
            ev.opaque_defs = set(opaque)
        a = api.symbolic_args(ev, body)
        if literal:
            for i, p in enumerate(body["params"]):
                pat = p["pat"]
                if pat is not None and pat["k"] == "bind" and pat["name"] in literal:
                    a[i] = literal[pat["name"]]
        if args:
            a = args
        prog = self.world.lib if prog_kind == "lib" else self.world.bin
        owner = prog.owner_program(body["def"]) or prog
        r = ev.call_body(owner, body, a)
        return ev, r, a


class AnchorMissing(Exception):
    pass


def loc_of(body):
    return short_loc(body.get("loc", "?"))
