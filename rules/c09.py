"""C09 Annual results do not depend on how time is laid out (DESIGN §5/C09).

T1 position independence: on the step axis only point-wise comprehensions, `len` and plain sums
occur; T2 extensivity: every reduction over the step axis is applied to an extensive (energy
degree 1) per-step quantity - never to a per-step ratio; T3 per-step factors are scale free."""
from epbd import term as tm, alg
from . import epmodel, epdeg
from .epmodel import get, leaves, pstr
from .common import loc_of

POSITIONAL = frozenset(["index", "first_val", "last_val", "rev", "enumerate", "skip", "take", "subrange",
                        "slice_from", "sorted", "sort_by_key", "setidx", "position_val", "fold", "foldgen",
                        "max_of", "min_of", "nonempty", "take_while", "skip_while", "map_while", "step_by"])
STEP_VEC_OPS = frozenset(["vop", "vsumover", "rep", "vneg"])


def is_step_vector(t, memo):
    r = memo.get(t.id)
    if r is not None:
        return r
    memo[t.id] = False
    op = t.op
    if op in STEP_VEC_OPS:
        r = True
    elif op == "proj" and t.a[3] == "values":
        r = True
    elif op == "ite":
        r = is_step_vector(t.a[1], memo) or is_step_vector(t.a[2], memo)
    elif op == "collect":
        r = iter_over_steps(t.a[0], memo)
    elif op in ("index", "mapidx") and isinstance(t.a[0], tm.T) and t.a[0].op == "emap":
        r = False
    else:
        r = False
    memo[t.id] = r
    return r


def iter_over_steps(it, memo):
    if it.op == "map" and it.a[0].op == "iter" and it.a[0].a[0].op == "adt" and it.a[0].a[0].a[0] == "Range" \
            and isinstance(it.a[1], tm.T) and it.a[1].op == "lam":
        # (0..n).map(|i| .. v[i] ..) with v a per-step vector: a comprehension along the step axis
        for x in tm.subterms(it.a[1]):
            if x.op == "index" and len(x.a) > 1 and isinstance(x.a[1], tm.T) and x.a[1].op == "bv" \
                    and isinstance(x.a[0], tm.T) and is_step_vector(x.a[0], memo):
                return True
        return False
    if it.op == "iter":
        return is_step_vector(it.a[0], memo)
    if it.op in ("map", "filter", "filter_map", "rev", "enumerate", "skip", "take", "take_while", "skip_while",
                 "map_while", "step_by", "iter_mut"):
        return isinstance(it.a[0], tm.T) and iter_over_steps(it.a[0], memo)
    if it.op == "zip":
        return iter_over_steps(it.a[0], memo) or iter_over_steps(it.a[1], memo)
    return False


def run(ctx, rep):
    rep.rule = ("T1: in the value graph of energy_performance no positional operator (index/first/last/rev/"
                "enumerate/skip/take/sort/general fold) is applied to a per-step vector; T2: every Σ over the step "
                "axis has an energy-degree-1 (extensive) summand, found by degree inference; T3 follows from C11")
    rep.explanation = ("Permutation invariance holds when per-step data is only combined point-wise and reduced by "
                       "plain sums; subdivision invariance holds when only extensive quantities are summed over time. "
                       "Both are facts about the shape of the extracted terms, decided for all inputs.")
    rep.assumptions = ["A2 real arithmetic (re-association of sums)", "A3/A4 front end, std models"]
    nsum = 0
    nvec = 0
    for lm in (False, True):
        e, A, D = epdeg.analyse(ctx, lm)
        where = loc_of(e.body)
        memo = {}
        roots = [e.result]
        seen_pos = {}
        for t in tm.subterms(e.result):
            if is_step_vector(t, memo):
                nvec += 1
            if t.op == "sum":
                nsum += 1
            if t.op in POSITIONAL:
                target = t.a[0] if isinstance(t.a[0], tm.T) else None
                if target is None:
                    continue
                hit = is_step_vector(target, memo) or iter_over_steps(target, memo)
                # v[i] with i the bound variable of a comprehension over the positions (0..n) is point-wise
                if hit and t.op == "index" and len(t.a) > 1 and isinstance(t.a[1], tm.T) and t.a[1].op == "bv":
                    continue
                if hit:
                    seen_pos.setdefault(t.op, t)
        # a loop the evaluator could not put into a closed form (`foldgen`) and that runs along the step axis or
        # carries a per-step vector: nothing is known about how it combines the steps (fail closed)
        for t in tm.subterms(e.result):
            if t.op == "foldgen" and t.a and isinstance(t.a[0], int):
                info = e.ev.loops_info.get(t.a[0])
                if info is None:
                    continue
                along = iter_over_steps(info["iter"], memo) or any(
                    s_.op in ("take_while", "skip_while", "map_while", "step_by", "call", "havoc") for s_ in tm.subterms(info["iter"]))
                carried = any(isinstance(x, tm.T) and any(is_step_vector(s_, memo) for s_ in tm.subterms(x))
                              for x in list(info["init"]))
                if along and carried:
                    seen_pos.setdefault("unclassified-loop", info["iter"])
        # a branch on the number of steps makes results depend on how time is subdivided
        for t in tm.subterms(e.result):
            if t.op in ("lt", "le", "eq") and len(t.a) == 2:
                a, b = t.a
                for x, y in ((a, b), (b, a)):
                    if y.op == "num" and x.op == "len" and (is_step_vector(x.a[0], memo) or iter_over_steps(x.a[0], memo)):
                        seen_pos.setdefault("len-guard", t)
        for op, t in seen_pos.items():
            # indexing a component list (not the step axis) is fine; the step axis is not
            rep.violated("C09/T1/%s/lm=%d" % (op, lm),
                         "no positional operator on the step axis", construct=where,
                         why="'%s' applied to a per-step vector: %s" % (op, tm.show(t, 3)[:300]))
        if not seen_pos:
            rep.discharged("C09/T1/lm=%d" % lm, "per-step vectors are only combined point-wise, measured by len, or summed",
                           derivation="%d per-step vector terms, %d Σ reductions, 0 positional operators" % (nvec, nsum))
    ntau = step_extensivity(ctx, rep)
    nn = normalisation_steps(ctx, rep)
    rep.analysed = {"step_vector_terms": nvec, "sum_reductions": nsum, "normalisation_step_vectors": nn}
    rep.floor("normalisation-step-vectors", nn, 10)
    rep.analysed["step_extensivity_leaves"] = ntau
    rep.floor("step-extensivity-leaves", ntau, 2 * 12 * 30)
    rep.floor("step-vectors", nvec, 100)
    rep.floor("sum-reductions", nsum, 50)


def origin_of(A, at):
    """A stable name for an intensive sum: which input classes its summand reads."""
    syms = set()
    A.atom_syms(at, syms, set())
    names = sorted(s.a[0].replace("in:", "") for s in syms)
    txt = A.show_atom(at, 4)
    tag = "cogen" if "COGEN" in txt else "other"
    return "%s/%s" % ("+".join(names), tag)


def normalisation_steps(ctx, rep):
    """T1 on the normalisation of components (completion of ambient / solar production, auxiliary
    shares): per-step vectors are only combined point-wise or summed, and no callable applied along
    the step axis carries state from one step to the next."""
    lib = ctx.lib
    nb = ctx.find_public_fn(lib, "Components::normalize")
    ev, r, _a = ctx.eval_entry("lib", nb)
    where = loc_of(nb)
    roots = [r]
    for info in ev.loops_info.values():
        roots.extend(info["next"])
    memo = {}
    bad = {}
    n = 0
    seen = set()
    for root in roots:
        for t in tm.subterms(root):
            if t.id in seen:
                continue
            seen.add(t.id)
            if is_step_vector(t, memo):
                n += 1
            if t.op == "stateful":
                bad.setdefault("stateful-closure", t)
            if t.op in POSITIONAL and t.op not in ("sort_by_key", "sorted"):
                target = t.a[0] if isinstance(t.a[0], tm.T) else None
                if target is not None and (is_step_vector(target, memo) or iter_over_steps(target, memo)):
                    # index(values, i) with i the bound variable of a range comprehension is point-wise
                    if t.op == "index" and len(t.a) > 1 and isinstance(t.a[1], tm.T) and t.a[1].op == "bv":
                        continue
                    bad.setdefault(t.op, t)
    for k, t in sorted(bad.items()):
        rep.violated("C09/T1/normalize/%s" % k, "normalisation treats every time step independently of its position", construct=where,
                     why=("a closure applied along the step axis writes a captured variable (state flows from one step to the next): %s"
                          if k == "stateful-closure" else "'%s' applied to a per-step vector: %%s" % k) % tm.show(t, 3)[:300])
    if not bad:
        rep.discharged("C09/T1/normalize", "normalisation combines per-step vectors point-wise or by plain sums, with stateless callables",
                       derivation="%d per-step vector terms" % n)
    return n


def step_extensivity(ctx, rep):
    """T2': a third degree, the power of the step length h (every step split in m parts: h -> h/m).
    Declared per-step energies scale with h; Σ_t lowers the power by one; annual results and ratios have
    power 0, per-step result vectors the power of their energy degree.  A comparison must be homogeneous
    in h too (a per-step energy against an annual one is not), unless it is one of the thresholds the
    property text admits."""
    from fractions import Fraction
    from epbd import degree
    n = 0
    for lm in (False, True):
        e = epmodel.ep(ctx, lm)
        where = loc_of(e.body)
        A = alg.Algebra()
        base2 = epdeg.base_degree_fn(e)

        def base3(atom):
            d = base2(atom)
            if d is None:
                return None
            if atom.key == ("nsteps",):
                return (Fraction(0), Fraction(0), Fraction(-1))
            return (d[0], d[1], d[0] if atom.kind == "elt" else Fraction(0))

        admitted = epdeg.make_admitted_guard(A, e)
        D = degree.DegreeAnalysis(A, base3, admitted, dim=3)
        memo = {}
        bad = {}
        for (ci, cname, pres, bc) in e.carriers():
            if pres is tm.FALSE:
                continue
            for p, t, gates in leaves(bc, ()):
                if p[0] == "carrier":
                    continue
                try:
                    poly = A.pw(t)
                except alg.NotScalar:
                    continue
                n += 1
                d = D.poly(poly)
                if d in ("zero", None):
                    continue
                vec = is_step_vector(t, memo)
                want = d[0] if vec else Fraction(0)
                if d[2] != want:
                    bad.setdefault(pstr(p), (cname, d))
        for name in ("balance", "rer", "rer_nrb", "rer_onst"):
            for p, t, gates in leaves(e.field(name), (name,)):
                if len(p) > 1 and p[1] == "needs":
                    continue
                try:
                    d = D.poly(A.scalar(t))
                except alg.NotScalar:
                    continue
                n += 1
                if d not in ("zero", None) and d[2] != 0:
                    bad.setdefault(pstr(p), ("total", d))
        for k, (cname, d) in sorted(bad.items())[:10]:
            rep.violated("C09/T2/step-power/%s/lm=%d" % (k, lm), "results are invariant when every step is split into equal sub-steps",
                         construct=where, why="%s (%s) scales with the step length to the power %s" % (k, cname, d[2]))
        # T2 (kept under its original keys): no Σ_t of an intensive per-step quantity
        if D.intensive_sums:
            for at in D.intensive_sums:
                origin = origin_of(A, at)
                rep.violated("C09/T2/intensive-sum/%s" % origin,
                             "only extensive per-step quantities are summed over time", construct=where,
                             why="Σ_t of a per-step ratio (grows with the number of steps): %s" % A.show_atom(at, 3)[:400])
        else:
            rep.discharged("C09/T2/lm=%d" % lm, "every Σ_t summand has energy degree 1", derivation="%d leaves analysed" % n)
        guards = [(k, s_) for k, s_ in D.issues if k == "scale-dependent-guard"]
        seen = set()
        for k, s_ in guards:
            key = "C09/T2/step-guard/lm=%d/%d" % (lm, len(seen))
            if s_ in seen:
                continue
            seen.add(s_)
            rep.violated(key, "a comparison does not change when every step is split into equal sub-steps", construct=where,
                         why="the two sides scale differently with the step length (or energy scale): %s" % s_[:300])
        if not bad and not guards:
            rep.discharged("C09/T2/step-power/lm=%d" % lm, "annual results and ratios have step-length power 0, per-step vectors that of their energy; "
                           "guards are homogeneous in the step length (admitted: the 1e-3 thresholds the property names)",
                           derivation="%d leaves, %d comparisons" % (n, len(D.guards)))
    return n
