"""C09 Annual results do not depend on how time is laid out (DESIGN §5/C09).

T1 position independence: on the step axis only point-wise comprehensions, `len` and plain sums
occur; T2 extensivity: every reduction over the step axis is applied to an extensive (energy
degree 1) per-step quantity - never to a per-step ratio; T3 per-step factors are scale free."""
from epbd import term as tm, alg
from . import epmodel, epdeg
from .epmodel import get, leaves, pstr
from .common import loc_of

POSITIONAL = frozenset(["index", "first_val", "last_val", "rev", "enumerate", "skip", "take", "subrange",
                        "slice_from", "sorted", "sort_by_key", "setidx", "position_val", "fold", "foldgen",
                        "max_of", "min_of", "nonempty"])
STEP_VEC_OPS = frozenset(["vop", "vsumover", "rep", "vneg"])


def is_step_vector(t, memo):
    r = memo.get(t.id)
    if r is not None:
        return r
    memo[t.id] = False
    op = t.op
    if op in STEP_VEC_OPS:
        r = True
    elif op == "proj" and t.a[3] == "values":
        r = True
    elif op == "ite":
        r = is_step_vector(t.a[1], memo) or is_step_vector(t.a[2], memo)
    elif op == "collect":
        r = iter_over_steps(t.a[0], memo)
    elif op in ("index", "mapidx") and isinstance(t.a[0], tm.T) and t.a[0].op == "emap":
        r = False
    else:
        r = False
    memo[t.id] = r
    return r


def iter_over_steps(it, memo):
    if it.op == "iter":
        return is_step_vector(it.a[0], memo)
    if it.op in ("map", "filter", "filter_map", "rev", "enumerate", "skip", "take"):
        return iter_over_steps(it.a[0], memo)
    if it.op == "zip":
        return iter_over_steps(it.a[0], memo) or iter_over_steps(it.a[1], memo)
    return False


def run(ctx, rep):
    rep.rule = ("T1: in the value graph of energy_performance no positional operator (index/first/last/rev/"
                "enumerate/skip/take/sort/general fold) is applied to a per-step vector; T2: every Σ over the step "
                "axis has an energy-degree-1 (extensive) summand, found by degree inference; T3 follows from C11")
    rep.explanation = ("Permutation invariance holds when per-step data is only combined point-wise and reduced by "
                       "plain sums; subdivision invariance holds when only extensive quantities are summed over time. "
                       "Both are facts about the shape of the extracted terms, decided for all inputs.")
    rep.assumptions = ["A2 real arithmetic (re-association of sums)", "A3/A4 front end, std models"]
    nsum = 0
    nvec = 0
    for lm in (False, True):
        e, A, D = epdeg.analyse(ctx, lm)
        where = loc_of(e.body)
        memo = {}
        roots = [e.result]
        seen_pos = {}
        for t in tm.subterms(e.result):
            if is_step_vector(t, memo):
                nvec += 1
            if t.op == "sum":
                nsum += 1
            if t.op in POSITIONAL:
                target = t.a[0] if isinstance(t.a[0], tm.T) else None
                if target is None:
                    continue
                hit = is_step_vector(target, memo) or iter_over_steps(target, memo)
                if hit:
                    seen_pos.setdefault(t.op, t)
        # a branch on the number of steps makes results depend on how time is subdivided
        for t in tm.subterms(e.result):
            if t.op in ("lt", "le", "eq") and len(t.a) == 2:
                a, b = t.a
                for x, y in ((a, b), (b, a)):
                    if y.op == "num" and x.op == "len" and (is_step_vector(x.a[0], memo) or iter_over_steps(x.a[0], memo)):
                        seen_pos.setdefault("len-guard", t)
        for op, t in seen_pos.items():
            # indexing a component list (not the step axis) is fine; the step axis is not
            rep.violated("C09/T1/%s/lm=%d" % (op, lm),
                         "no positional operator on the step axis", construct=where,
                         why="'%s' applied to a per-step vector: %s" % (op, tm.show(t, 3)[:300]))
        if not seen_pos:
            rep.discharged("C09/T1/lm=%d" % lm, "per-step vectors are only combined point-wise, measured by len, or summed",
                           derivation="%d per-step vector terms, %d Σ reductions, 0 positional operators" % (nvec, nsum))
        # T2
        n_leaves = 0
        for (ci, cname, pres, bc) in e.carriers():
            if pres is tm.FALSE:
                continue
            for p, t, gates in leaves(bc, ()):
                if p[0] == "carrier":
                    continue
                n_leaves += 1
                try:
                    D.poly(A.pw(t))
                except alg.NotScalar:
                    pass
        for name in ("balance", "rer", "rer_nrb", "rer_onst"):
            for p, t, gates in leaves(e.field(name), (name,)):
                if len(p) > 1 and p[1] == "needs":
                    continue
                try:
                    D.poly(A.scalar(t))
                except alg.NotScalar:
                    pass
        if D.intensive_sums:
            for at in D.intensive_sums:
                origin = origin_of(A, at)
                rep.violated("C09/T2/intensive-sum/%s" % origin,
                             "only extensive per-step quantities are summed over time", construct=where,
                             why="Σ_t of a per-step ratio (grows with the number of steps): %s" % A.show_atom(at, 3)[:400])
        else:
            rep.discharged("C09/T2/lm=%d" % lm, "every Σ_t summand has energy degree 1",
                           derivation="%d leaves analysed" % n_leaves)
    rep.analysed = {"step_vector_terms": nvec, "sum_reductions": nsum}
    rep.floor("step-vectors", nvec, 100)
    rep.floor("sum-reductions", nsum, 50)


def origin_of(A, at):
    """A stable name for an intensive sum: which input classes its summand reads."""
    syms = set()
    A.atom_syms(at, syms, set())
    names = sorted(s.a[0].replace("in:", "") for s in syms)
    txt = A.show_atom(at, 4)
    tag = "cogen" if "COGEN" in txt else "other"
    return "%s/%s" % ("+".join(names), tag)
