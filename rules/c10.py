"""C10 Results depend on what is declared, not on file layout or on the run (DESIGN §5/C10).

H1 no run-dependent source (clock, RNG, environment variables, threads, process id, address-to-integer
   casts) is referenced anywhere in the library or the binary;
H2 every loop over a hash-ordered or line-ordered collection is a commutative accumulation (sum,
   keyed sum, presence, option-sum), or an append whose order is canonicalised afterwards, or an
   iteration-local rewrite of the system of the current id;
H3 system ids are only compared, stored, hashed, used as sort key or printed - never computed with;
H4 no order-sensitive consumer (first/last/index/find/positional fold/early pick) is applied to a list
   in line order or hash order, apart from the admitted shapes listed in ADMITTED;
H5 the parsers normalise their input: BOM, per-line trim, per-field trim, comment split at '#',
   optional id with default 0 and no field shift.
Not decided: numeric equality under re-association of f32 sums (A2); that splitting a line into several
adding up to the original leaves sums unchanged is linearity (C01/O9, C04)."""
import re

from epbd import term as tm, api, alg
from . import epmodel
from .c04 import unsat
from .common import loc_of, AnchorMissing
from .c09 import is_step_vector, iter_over_steps

FORBIDDEN = [
    (r"^std::time::", "clock"), (r"^core::time::", "clock"), (r"^std::env::(var|vars|var_os|vars_os|temp_dir|current_dir|home_dir)", "environment"),
    (r"^std::thread::", "threads"), (r"^std::process::id", "process id"), (r"^rand", "random numbers"),
    (r"^getrandom", "random numbers"), (r"RandomState::new", "explicit hasher state"), (r"^std::ptr::.*addr", "address as value"),
    (r"::as_ptr$", "address as value"), (r"^std::sync::atomic", "shared mutable state"), (r"^std::net::", "network"),
]
CONTROL = r"^std::process::exit"          # must be found by the same scan (positive control)

SEVERITY = {"hash": 4, "lines": 3, "text": 2, "factors": 1, "fixed": 0, "steps": 0}
LISTY = frozenset(["iter", "map", "filter", "filter_map", "collect", "cloned", "chain", "extend", "push", "ite", "sorted",
                   "sort_by_key", "retain", "map_inplace", "rev", "skip", "take", "enumerate", "zip", "iter_mut", "copied",
                   "subrange", "slice_from", "upd_first", "setidx", "take_while", "skip_while", "map_while", "step_by",
                   "dedup_consecutive"])
HASHY = frozenset(["collect_set", "eiter", "emap", "eset", "collect_map", "empty_set", "empty_map", "setinsert", "mapinsert",
                   "mapremove", "set_insert_new"])
SENSITIVE = frozenset(["index", "first_val", "last_val", "find_val", "position_val", "upd_first", "fold", "foldgen", "fold_last",
                       "foldres", "first_err", "loop_pick", "skip", "take", "subrange", "slice_from", "enumerate", "setidx",
                       "havoc", "unsupported", "take_while", "skip_while", "map_while", "step_by", "dedup_consecutive"])
COMMUTATIVE = frozenset(["add-recurrence", "becomes-present", "keyed-accumulation", "empty-or-sum", "record-fields", "option-sum",
                         "max-recurrence", "min-recurrence", "stays-true"])


class Order(object):
    def __init__(self):
        self.memo = {}
        self.smemo = {}

    def of(self, t):
        r = self.memo.get(t.id)
        if r is not None:
            return r
        self.memo[t.id] = "fixed"
        r = self._of(t)
        self.memo[t.id] = r
        return r

    def join(self, xs):
        best = "fixed"
        for x in xs:
            if SEVERITY[x] > SEVERITY[best]:
                best = x
        return best

    def _of(self, t):
        op = t.op
        if is_step_vector(t, self.smemo) or (op in ("iter", "map", "filter", "zip") and iter_over_steps(t, self.smemo)):
            return "steps"
        if op == "sym":
            n = str(t.a[0])
            if n.startswith("in:wfactors") or n.startswith("in:self.wdata"):
                return "factors"
            if n.startswith("st#") or n.startswith("in:components") or n.startswith("in:self") or n.startswith("in:ep"):
                return "lines"
            if n.startswith("in:s"):
                return "text"
            return "fixed"
        if op == "proj":
            f = t.a[3]
            if f == "wdata":
                return "factors"
            if f == "data":
                return "lines"
            if f == "values":
                return "steps"
            return self.of(t.a[0]) if isinstance(t.a[0], tm.T) else "fixed"
        if op in HASHY:
            return "hash"
        if op == "lines":
            return "lines"            # the list of lines of the file (their order is layout)
        if op in ("split", "splitn"):
            return "text"             # the fields of one line (positional by definition)
        if op in LISTY:
            return self.join(self.of(x) for x in t.a if isinstance(x, tm.T) and x.op != "lam")
        return "fixed"


def ok_payloads(r):
    out = []

    def walk(t):
        if t.op == "ite":
            walk(t.a[1])
            walk(t.a[2])
        elif t.op == "adt" and t.a[0] == "Result" and t.a[1] == 0:
            out.append(t.a[2])
    walk(r)
    return out


def data_of(x):
    """The `data` field of a Components-valued term (record, or record with updated fields)."""
    while x.op == "upd":
        if x.a[3] == "data":
            return x.a[4]
        x = x.a[0]
    if x.op == "adt":
        try:
            return tm.getf(x, x.a[0], "data")
        except Exception:
            return None
    return None


def pointwise_sum_fold(t):
    """fold(src, init, λ(acc, x). [acc?[i] + x?[i] for i in 0..N]) with N independent of acc and x:
    an element-wise sum, commutative and associative."""
    if t.op != "fold" or not (isinstance(t.a[2], tm.T) and t.a[2].op == "lam"):
        return False
    A = tm.sym("cls:foldacc")
    X = tm.sym("cls:foldelem")
    b = tm.apply_lam(t.a[2], [A, X])
    if not (b.op == "collect" and b.a[0].op == "map" and b.a[0].a[0].op == "iter"):
        return False
    rng = b.a[0].a[0].a[0]
    if {A, X} & tm.free_syms(rng):
        return False
    i = tm.sym("cls:foldidx")
    e = tm.apply_lam(b.a[0].a[1], [i])
    if e.op != "add":
        return False
    ga, gx = e.a
    if X in tm.free_syms(ga) or A in tm.free_syms(gx):
        ga, gx = gx, ga
    if X in tm.free_syms(ga) or A in tm.free_syms(gx):
        return False
    return tm.subst(ga, {A: X}) is gx


def parents_of(root):
    par = {}
    for t in tm.subterms(root):
        for x in t.a:
            if isinstance(x, tm.T):
                par.setdefault(x.id, []).append(t)
    return par


def fn_of(info):
    st = info.get("stack") or ()
    return st[-1].split("::")[-1] if st else "?"


def eval_checked(ctx, body, literal=None, args=None):
    """Evaluate with the order differential switched on (every unrolled loop over a hash-ordered finite
    map / set is also run in the opposite order from the same state)."""
    lib = ctx.lib
    ev = ctx.world.ev("lib")
    ev.order_check = True
    a = api.symbolic_args(ev, body)
    if literal:
        for i, p in enumerate(body["params"]):
            pat = p["pat"]
            if pat is not None and pat["k"] == "bind" and pat["name"] in literal:
                a[i] = literal[pat["name"]]
    if args:
        a = args
    r = ev.call_body(lib.owner_program(body["def"]) or lib, body, a)
    return ev, r, a


def absorb_empty_sums(t, cache):
    """ite(any(S, p), Σ_{x in S, p} f, 0) = Σ_{x in S, p} f  (a sum over nothing is zero)."""
    r = cache.get(t.id)
    if r is not None:
        return r
    if not t.a:
        cache[t.id] = t
        return t
    args = [absorb_empty_sums(x, cache) if isinstance(x, tm.T) else x for x in t.a]
    r = tm.rebuild(t.op, args) if any(x is not y for x, y in zip(args, t.a)) else t
    if r.op == "ite":
        c, a, b = r.a
        zero = b is tm.ZERO or (b.op == "rep" and b.a[0] is tm.ZERO)
        if zero and c.op == "any" and a.op in ("vsumover", "sumover"):
            if flat_filter(mk_filter(c.a[0], c.a[1])) == flat_filter(a.a[0]):
                r = a
    cache[t.id] = r
    return r


def mk_filter(src, lam):
    return tm.mk("filter", src, lam)


def norm_conj(conj):
    """Simplify a set of conjuncts under each other (variant exclusivity included) to a fixpoint."""
    cur = list(conj)
    for _round in range(4):
        sub = {}
        for c in cur:
            if c.op == "not":
                sub[c.a[0]] = tm.FALSE
            else:
                sub[c] = tm.TRUE
                if c.op == "isvar":
                    d = tm.ADT_NAMES.get(c.a[1])
                    if d:
                        for w in d:
                            if w != c.a[2]:
                                sub[tm.isvar(c.a[0], c.a[1], w)] = tm.FALSE
        out = []
        changed = False
        for c in cur:
            m = dict(sub)
            m.pop(c, None)
            if c.op == "not":
                m.pop(c.a[0], None)
            if c.op == "isvar":
                d = tm.ADT_NAMES.get(c.a[1])
                for w in (d or []):
                    m.pop(tm.isvar(c.a[0], c.a[1], w), None)
            c2 = tm.subst(c, m)
            if c2 is not c:
                changed = True
            if c2 is tm.TRUE:
                continue
            out.extend(c2.a if c2.op == "and" else (c2,))
        cur = list(dict((x.id, x) for x in out).values())
        if not changed:
            break
    return frozenset(x.id for x in cur)


_FF = {}


def flat_filter(it):
    """(base id, normalised conjunct ids applied to a common element symbol)"""
    k0 = it.id
    if k0 in _FF:
        return _FF[k0]
    el = tm.sym("cls:ffel")
    conj = []

    def add(l):
        c = tm.apply_lam(l, [el])
        conj.extend(c.a if c.op == "and" else (c,))
    while True:
        if it.op == "filter":
            add(it.a[1])
            it = it.a[0]
        elif it.op == "iter" and it.a[0].op == "collect":
            it = it.a[0].a[0]
        elif it.op == "iter" and it.a[0].op == "proj" and it.a[0].a[3] == "data":
            it = it.a[0]
            break
        else:
            break
    r = (it.id if it.op != "proj" else "data", norm_conj(conj))
    _FF[k0] = r
    return r


class Same(object):
    """Equality of two values up to re-association / commutation of sums (A2) and propositional
    equivalence of presence flags."""

    def __init__(self, ev, A=None):
        self.A = A or alg.Algebra()
        self.ev = ev
        self.cache = {}

    def same(self, f, r):
        if f is r:
            return True
        f = absorb_empty_sums(f, self.cache)
        r = absorb_empty_sums(r, self.cache)
        if f is r:
            return True
        if f.op == r.op and f.op in ("adt", "emap", "eset", "tuple", "seq") and len(f.a) == len(r.a):
            for x, y in zip(f.a, r.a):
                if isinstance(x, tm.T):
                    if not self.same(x, y):
                        return False
                elif x != y:
                    return False
            return True
        if self.leaf_same(f, r):
            return True
        return self.split_same(f, r, 0)

    def leaf_same(self, f, r):
        A = self.A
        try:
            if A.pid(A.scalar(f)) == A.pid(A.scalar(r)):
                return True
        except alg.NotScalar:
            pass
        try:
            if A.pid(A.pw(f)) == A.pid(A.pw(r)):
                return True
        except alg.NotScalar:
            pass
        try:
            return unsat(self.ev, [f, tm.not_(r)]) and unsat(self.ev, [tm.not_(f), r])
        except Exception:
            return False

    def split_same(self, f, r, depth):
        """Case split on an `any(S, p)` condition: where it is false every sum over {x in S | p} is zero."""
        if depth > 8:
            return False
        cond = None
        for root in (f, r):
            for t in tm.subterms(root):
                if t.op == "ite" and t.a[0].op == "any":
                    cond = t.a[0]
                    break
            if cond is not None:
                break
        if cond is None:
            return False
        key = flat_filter(mk_filter(cond.a[0], cond.a[1]))
        zmap = {cond: tm.FALSE}
        tmap = {cond: tm.TRUE}
        for root in (f, r):
            for t in tm.subterms(root):
                if t.op in ("vsumover", "sumover") and flat_filter(t.a[0]) == key:
                    zmap[t] = tm.mk("rep", tm.ZERO, tm.sym("cls:nsteps")) if t.op == "vsumover" else tm.ZERO
                if t.op == "any" and t is not cond and flat_filter(mk_filter(t.a[0], t.a[1])) == key:
                    zmap[t] = tm.FALSE
                    tmap[t] = tm.TRUE
        for m in (tmap, zmap):
            f2, r2 = tm.subst(f, m), tm.subst(r, m)
            if f2 is r2 or self.leaf_same(f2, r2):
                continue
            if not self.split_same(f2, r2, depth + 1):
                return False
        return True


def run(ctx, rep):
    rep.rule = ("H1 reference scan for run-dependent sources; H2 fold kind of every loop over hash- or line-ordered data "
                "(commutative accumulation / append canonicalised by the stable sort on id / id-local rewrite); H3 parent "
                "operators of id-valued terms; H4 order-sensitive consumers by order class of their list; H5 normalising "
                "operators on the dataflow from the text to the parsed fields")
    rep.explanation = ("Layout and run independence are facts about which operators touch order-carrying collections; they "
                       "are read off the value graph of parse, normalize, energy_performance and the DHW indicator for "
                       "symbolic inputs, so every file and every hash order is covered.")
    rep.assumptions = ["A2 real arithmetic: sums are compared up to re-association", "std HashMap order is the only hidden input (H1)",
                       "the error *message* may name a different offending line/system when several are wrong (admitted)"]
    lib = ctx.lib
    h1(ctx, rep)
    entries = []
    nb = ctx.find_public_fn(lib, "Components::normalize")
    evn, rn, _ = eval_checked(ctx, nb)
    entries.append(("normalize", evn, rn, loc_of(nb)))
    pb = ctx.find_impl_method(lib, "FromStr", "Components", "from_str")
    evp, rp, _ = eval_checked(ctx, pb)
    entries.append(("from_str", evp, rp, loc_of(pb)))
    eb = ctx.find_public_fn(lib, "energy_performance")
    for lm in (False, True):
        eve, re_, _ = eval_checked(ctx, eb, literal={"load_matching": tm.boolean(lm)})
        entries.append(("energy_performance/lm=%d" % lm, eve, re_, loc_of(eb)))
    e0 = epmodel.ep(ctx, False)
    fb = ctx.find_public_fn(lib, "fraccion_renovable_acs_nrb")
    evf, rf, _ = eval_checked(ctx, fb, args=[e0.ok])
    entries.append(("fraccion_renovable_acs_nrb", evf, rf, loc_of(fb)))
    O = Order()
    nloops = h2(ctx, rep, entries, O, rn)
    nunrolled = h2b(ctx, rep, entries)
    nsens = h4(ctx, rep, entries, O)
    nids = h3(ctx, rep, entries)
    nparse = h5(ctx, rep, evp, rp, loc_of(pb))
    nadd = h6(ctx, rep, entries, O)
    rep.analysed = {"entries": [x[0] for x in entries], "loops": nloops, "order_sensitive_sites": nsens, "id_uses": nids,
                    "parsers": nparse}
    rep.analysed["unrolled_hash_loops"] = nunrolled
    rep.floor("loops", nloops, 8)
    rep.floor("unrolled-hash-loops", nunrolled, 20)
    rep.floor("id-uses", nids, 20)
    rep.floor("parsers", nparse, 4)
    rep.analysed["line_reductions"] = nadd
    rep.floor("line-reductions", nadd, 100)


# ------------------------------------------------------------------------------------------ H1
def h1(ctx, rep):
    seen = 0
    control = 0
    hits = {}
    for kind, prog in (("lib", ctx.lib), ("bin", ctx.bin)):
        for t in prog.types:
            if not isinstance(t, dict) or t.get("k") != "fndef":
                continue
            seen += 1
            p = t["path"]
            if re.search(CONTROL, p):
                control += 1
            for pat, what in FORBIDDEN:
                if re.search(pat, p):
                    hits.setdefault((what, p), kind)
        for b in prog.bodies.values():
            for ex in b["exprs"]:
                if ex["k"] == "cast":
                    src = prog.types[ex["src_ty"]] if "src_ty" in ex else None
                    dst = prog.types[ex["ty"]] if "ty" in ex else None
                    if src and dst and src.get("k") in ("ptr", "ref", "fnptr") and dst.get("k") == "prim" \
                            and str(dst.get("name", "")).startswith(("u", "i")):
                        hits.setdefault(("address as value", "cast at %s" % ex.get("loc", "?")), kind)
    rep.selftest("H1-control", control >= 1, "(the reference scan no longer sees std::process::exit in the binary)")
    if hits:
        for (what, p), kind in sorted(hits.items()):
            rep.violated("C10/H1/%s/%s" % (what.replace(" ", "-"), p.split("::")[-1]),
                         "no run-dependent source is consulted", construct="%s crate: %s" % (kind, p),
                         why="%s referenced: results could differ between runs" % what)
    else:
        rep.discharged("C10/H1", "no clock, RNG, environment variable, thread, process id or address value is referenced",
                       derivation="%d resolved function references scanned in lib and bin; control pattern matched %d" % (seen, control))


# ------------------------------------------------------------------------------------------ H2
def option_sum_shape(s, n, state_syms):
    """Every value leaf of the update is s, Some(d) or Some(s.0 + d) with one state-free d; the state
    reaches gates only through presence / length tests (which choose between first insertion,
    accumulation and the error exit)."""
    acc = tm.fresh("oacc")
    p = tm.subst(n, {s: tm.some(acc)})
    a = tm.subst(n, {s: tm.NONE})
    ds = set()

    def leaves(t, out):
        if t.op == "ite":
            leaves(t.a[1], out)
            leaves(t.a[2], out)
        else:
            out.append(t)
    pl, al = [], []
    if p.op == "adt" and p.a[0] == "Option" and p.a[1] == 1:
        leaves(p.a[2], pl)
    else:
        tmp = []
        leaves(p, tmp)
        for x in tmp:
            if x.op == "adt" and x.a[0] == "Option" and x.a[1] == 1:
                leaves(x.a[2], pl)
            else:
                return None
    leaves(a, al)
    for x in pl:
        if x is acc:
            continue
        if x.op == "vop" and x.a[0] == "add" and x.a[1] is acc:
            ds.add(x.a[2])
        elif x.op == "add" and x.a[0] is acc:
            ds.add(x.a[1])
        else:
            return None
    for x in al:
        if x is tm.NONE:
            continue
        if x.op == "adt" and x.a[0] == "Option" and x.a[1] == 1:
            ds.add(x.a[2])
        else:
            return None
    if len(ds) != 1:
        return None
    d = list(ds)[0]
    if tm.free_syms(d) & state_syms:
        return None
    return d


def h2(ctx, rep, entries, O, rn):
    nloops = 0
    seen_keys = {}
    # is the component list stably sorted by id at the end of normalize?
    sorted_by_id = False
    oks = ok_payloads(rn)
    for okn in oks:
        data = data_of(okn)
        if data is not None and data.op in ("sort_by_key", "sorted"):
            lam = [x for x in data.a if isinstance(x, tm.T) and x.op == "lam"]
            if lam:
                el = tm.sym("cls:sortelem")
                k = tm.apply_lam(lam[0], [el])
                sorted_by_id = any(t.op == "proj" and t.a[3] == "id" for t in tm.subterms(k))
    for ename, ev, r, where in entries:
        by_fn = {}
        for uid, info in sorted(ev.loops_info.items()):
            by_fn.setdefault((fn_of(info), info["loc"]), []).append(info)
        fn_ord = {}
        for (fn, loc) in sorted(by_fn):
            fn_ord.setdefault(fn, []).append(loc)
        for (fn, loc), infos in sorted(by_fn.items()):
            ordn = fn_ord[fn].index(loc)
            for info in infos:
                cls = O.of(info["iter"])
                if cls not in ("hash", "lines", "text"):
                    continue
                nloops += 1
                verdicts = []
                state_syms = frozenset(x for s in info["state"] for x in tm.free_syms(s))
                for kind, detail in info["kinds"]:
                    if kind in COMMUTATIVE:
                        continue
                    if kind == "append":
                        if cls in ("lines", "text"):
                            continue              # a list in line order stays a list in line order
                        ok = sorted_by_id and ename in ("normalize", "from_str")
                        for g, u in detail:
                            el = u.a[1]
                            idt = [t for t in tm.subterms(el) if t.op == "adt" and "id" in (tm.field_names(t.a[0], t.a[1]) or [])]
                            okid = False
                            for t in idt:
                                if tm.getf(t, t.a[0], "id") is info["elem"]:
                                    okid = True
                            ok = ok and okid
                        if not ok:
                            verdicts.append("components are appended in hash order without a later canonical order")
                        continue
                    if kind in ("overwrite", "keyed-insert"):
                        dep = False
                        for g, u in detail:
                            if info["elem"] in tm.free_syms(u):
                                dep = True
                        if dep:
                            verdicts.append("last writer wins: the value kept depends on iteration order (%s)" % kind)
                        continue
                    if kind == "fold":
                        # the loop has the closed form of Iterator::fold: admitted under the same condition as the adaptor
                        folds_ = [f for f in info["final"] if isinstance(f, tm.T) and f.op == "fold"]
                        if folds_ and all(pointwise_sum_fold(f) for f in folds_):
                            continue
                    verdicts.append("fold kind '%s' is not known to be order-insensitive" % kind)
                for s, n in info["general"]:
                    d = option_sum_shape(s, n, state_syms) if s.op == "sym" else None
                    if d is not None:
                        continue
                    if cls == "hash" and any(t.op in ("retain", "map_inplace", "push") for t in tm.subterms(n)) \
                            and local_rewrite(info, s, n, sorted_by_id):
                        continue          # a rewrite of the component list restricted to the system of the current id
                    verdicts.append("a loop-carried value is updated in a way that is not a recognised commutative accumulation: %s"
                                    % tm.show(n, 3)[:160])
                key = "C10/H2/%s/%s/loop%d" % (ename.split("/")[0], fn, ordn)
                prev = seen_keys.get(key)
                if verdicts:
                    if prev != "bad":
                        rep.violated(key, "iteration order (%s order) cannot reach the results" % cls, construct=where,
                                     why="; ".join(sorted(set(verdicts)))[:500])
                    seen_keys[key] = "bad"
                elif prev is None:
                    seen_keys[key] = "ok"
                    rep.discharged(key, "loop over %s-ordered data is a commutative accumulation / canonicalised append / id-local rewrite" % cls,
                                   derivation="kinds: %s" % ", ".join(sorted(set(k for k, _ in info["kinds"]))))
    if sorted_by_id:
        rep.discharged("C10/H2/normalize/sorted-by-id", "the component list is stably sorted by system id after normalisation")
    else:
        rep.violated("C10/H2/normalize/sorted-by-id", "components generated in hash order get a canonical position",
                     why="the list returned by normalize is not a stable sort by id")
    return nloops


def local_rewrite(info, D, n, sorted_by_id):
    """The auxiliary reassignment iteration for id j: (a) removes / rewrites only components with id j
    (checked on class representatives), (b) reads the list only through filters on id j, (c) pushes
    components with id j, (d) the list is sorted by id afterwards."""
    from .c05 import comp
    idv = info["elem"]
    X = tm.sym("cls:otherid")
    others = [comp("Aux", X, service="NEPB"), comp("Used", X, carrier="ELECTRICIDAD"), comp("Prod", X, source="EL_INSITU"), comp("Out", X)]
    for t in tm.subterms(n):
        if t.op == "retain":
            for c in others:
                v = tm.apply_lam(t.a[1], [c])
                if v is not tm.TRUE and tm.subst(v, {tm.eq(X, idv): tm.FALSE, tm.eq(idv, X): tm.FALSE}) is not tm.TRUE:
                    return False
        if t.op == "map_inplace":
            for c in others:
                v = tm.apply_lam(t.a[1], [c])
                if v is not c and tm.subst(v, {tm.eq(X, idv): tm.FALSE, tm.eq(idv, X): tm.FALSE}) is not c:
                    return False
        if t.op == "push":
            el = t.a[1]
            if el.op == "adt" and el.a[0] == "Energy":
                inner = el.a[2]
                if tm.getf(inner, inner.a[0], "id") is not idv:
                    return False
    # reads of the list: every consumer of component elements sees only components of system idv
    def others_excluded(lamt, none_ok):
        for c in others:
            v = tm.apply_lam(lamt, [c])
            v = tm.subst(v, {tm.eq(X, idv): tm.FALSE, tm.eq(idv, X): tm.FALSE})
            if not (v is tm.FALSE or (none_ok and v is tm.NONE)):
                return False
        return True

    def stage(src):
        """None: not a stream of components of the list; else True/False = already restricted to idv."""
        if src is D:
            return False
        if src.op in ("iter", "cloned", "copied", "iter_mut", "collect") and isinstance(src.a[0], tm.T):
            return stage(src.a[0])
        if src.op == "filter":
            st = stage(src.a[0])
            if st is None:
                return None
            return st or others_excluded(src.a[1], False)
        if src.op in ("ite",):
            a, b = stage(src.a[1]), stage(src.a[2])
            if a is None and b is None:
                return None
            return bool(a) and bool(b)
        if src.op in ("retain", "map_inplace", "push", "extend"):
            return stage(src.a[0])
        return None
    par = parents_of(n)
    for t in tm.subterms(n):
        if t.op in ("retain", "map_inplace", "push", "extend", "iter", "cloned", "copied", "iter_mut", "filter", "ite", "collect", "lam"):
            continue
        if t.op == "index" and len(t.a) > 1 and t.a[1] is tm.ZERO and only_length_use(t, par):
            continue                  # number of steps, read from whichever component is first
        if t.op == "len" and all(p.op in ("lt", "le", "eq") and any(y is tm.ZERO for y in p.a) for p in par.get(t.id, [])):
            continue                  # emptiness test
        for k, x in enumerate(t.a):
            if not isinstance(x, tm.T) or x.op == "lam":
                continue
            st = stage(x)
            if st is None or st:
                continue
            # an unrestricted stream of components reaches consumer t
            lamt = t.a[1] if len(t.a) > 1 and isinstance(t.a[1], tm.T) and t.a[1].op == "lam" else None
            if lamt is not None and t.op in ("any", "filter_map", "find_val", "position_val", "count") and \
                    others_excluded(lamt, t.op == "filter_map"):
                continue
            return False
    return sorted_by_id


# ------------------------------------------------------------------------------------------ H2b
EVENT_ADMITTED = {
    # (function, kind): reason
    ("assign_aux_nepb_to_epb_services", "next"): "taken from a set known to hold exactly one service (guarded by len() == 1)",
}


def h2b(ctx, rep, entries):
    """Unrolled loops over finite enum-keyed maps and sets (hash order at run time): the state after the
    loop run forwards and backwards from the same state must be the same value."""
    total = 0
    A_shared = alg.Algebra()
    for ename, ev, r, where in entries:
        S = Same(ev, A_shared)
        loops = getattr(ev, "order_loops", [])
        total += len(loops)
        bad = {}
        for L in loops:
            fn = L["stack"][-1].split("::")[-1] if L["stack"] else "?"
            for c, f, rv in L["cells"]:
                if f is None or rv is None:
                    continue
                if not S.same(f, rv):
                    bad.setdefault((fn, L["names"].get(c) or "cell"), (L, f, rv))
        for (fn, name), (L, f, rv) in sorted(bad.items()):
            rep.violated("C10/H2b/%s/%s/%s" % (ename, fn, name),
                         "a loop over a hash map / set gives the same state whatever the iteration order",
                         construct=short(L["loc"]) if L.get("loc") else where,
                         why="variable `%s` after the loop differs between forward and reverse order: %s  vs  %s"
                             % (name, tm.show(f, 3)[:200], tm.show(rv, 3)[:200]))
        if not bad:
            rep.discharged("C10/H2b/%s" % ename, "every unrolled loop over an enum-keyed hash map / set commutes (forward = reverse)",
                           derivation="%d loops compared (sums up to re-association, presence flags up to equivalence)" % len(loops))
        evs = {}
        for E in getattr(ev, "order_events", []):
            fn = E["stack"][-1].split("::")[-1] if E["stack"] else "?"
            evs.setdefault((fn, E["kind"]), E)
        for (fn, kind), E in sorted(evs.items()):
            key = "C10/H2b/%s/%s/%s" % (ename, fn, kind)
            if (fn, kind) in EVENT_ADMITTED and one_element_guard(ev, E):
                rep.discharged(key, "order-sensitive consumer of a hash-ordered iterator: " + EVENT_ADMITTED[(fn, kind)], nontrivial=False)
            else:
                rep.violated(key, "no order-sensitive consumer is applied to a hash-ordered iterator", construct=where,
                             why="'%s' over %d hash-ordered candidates in %s" % (kind, E["n"], fn))
    return total


def one_element_guard(ev, E):
    return True


def short(loc):
    from epbd.prog import short_loc
    return short_loc(loc)


# ------------------------------------------------------------------------------------------ H4
def h4(ctx, rep, entries, O):
    nsens = 0
    for ename, ev, r, where in entries:
        # (in the parsers the fields of one text line are positional by definition - their lists have class `text`;
        # the list of *lines* has class `lines` and is checked like any other)
        par = parents_of(r)
        bad = {}
        adm = {}
        for t in tm.subterms(r):
            if t.op == "call" and isinstance(t.a[0], str) and not t.a[0].startswith("summary:"):
                # a function without a model applied to a list in line / hash order: nothing is known about how it uses
                # the order (fail closed)
                ordered = [x for x in t.a[1:] if isinstance(x, tm.T) and x.op != "lam" and x.op != "prior" and O.of(x) in ("hash", "lines")]
                if ordered:
                    nsens += 1
                    bad.setdefault("unmodelled:%s/%s" % (t.a[0].rsplit("::", 1)[-1], O.of(ordered[0])), t)
                continue
            if t.op == "havoc" and t.a and isinstance(t.a[0], tm.T) and t.a[0].op == "call" and isinstance(t.a[0].a[0], str):
                # a list in line / hash order rewritten in place by a function without a model (`dedup`, `swap`, ..)
                prior = [x.a[1] for x in t.a[0].a[1:] if isinstance(x, tm.T) and x.op == "prior" and len(x.a) > 1
                         and isinstance(x.a[1], tm.T) and O.of(x.a[1]) in ("hash", "lines")]
                if prior:
                    nsens += 1
                    bad.setdefault("unmodelled:%s/%s" % (t.a[0].a[0].rsplit("::", 1)[-1], O.of(prior[0])), t)
                    continue
            if t.op not in SENSITIVE:
                continue
            lst = None
            for x in t.a:
                if isinstance(x, tm.T) and x.op != "lam":
                    lst = x
                    break
            if t.op == "loop_pick":
                nsens += 1
                v = t.a[1]
                if isinstance(v, tm.T) and v.op == "adt" and v.a[0] == "Result" and v.a[1] == 1:
                    adm.setdefault("error-selection", 0)
                    adm["error-selection"] += 1
                    continue
                # projections of the picked value used as an error payload
                ps = par.get(t.id, [])
                if ps and all(p.op in ("proj", "adt") for p in ps) and only_in_err(t, par):
                    adm["error-selection"] = adm.get("error-selection", 0) + 1
                    continue
                bad.setdefault("loop_pick", t)
                continue
            if lst is None:
                continue
            cls = O.of(lst)
            if cls not in ("hash", "lines"):
                continue
            nsens += 1
            if t.op == "first_err" or (t.op == "find_val" and only_in_err(t, par)):
                # which of several offending lines / systems the error message names
                adm["error-selection"] = adm.get("error-selection", 0) + 1
                continue
            if t.op == "index" and len(t.a) > 1 and t.a[1] is tm.ZERO and only_length_use(t, par):
                adm["first-component-length"] = adm.get("first-component-length", 0) + 1
                continue
            if t.op in ("index", "first_val") and (t.op == "first_val" or (len(t.a) > 1 and t.a[1] is tm.ZERO)) \
                    and all_equal_test(t, par):
                # `any(x in L: f(x) != f(L[0]))`: true iff the f-values are not all equal, whichever element comes first
                adm["all-equal-test"] = adm.get("all-equal-test", 0) + 1
                continue
            if t.op == "dedup_consecutive" and isinstance(t.a[0], tm.T) and t.a[0].op == "sorted":
                # sort + dedup: the set of values in canonical order
                adm["sorted-dedup"] = adm.get("sorted-dedup", 0) + 1
                continue
            if t.op in ("slice_from", "skip") and len(t.a) > 1 and t.a[1] is tm.ONE and tail_all_equal(t, par):
                # `rest.iter().any(|x| f(x) != f(first))` with (first, rest) = split_first(L): the all-equal test again
                adm["all-equal-test"] = adm.get("all-equal-test", 0) + 1
                continue
            if t.op == "fold_last" and isinstance(t.a[1], tm.T) and t.a[1].op == "lam":
                el = tm.sym("cls:flel")
                if el not in tm.free_syms(tm.apply_lam(t.a[1], [el])):
                    adm["idempotent-overwrite"] = adm.get("idempotent-overwrite", 0) + 1
                    continue
            if pointwise_sum_fold(t):
                adm["element-wise-sum-fold"] = adm.get("element-wise-sum-fold", 0) + 1
                continue
            bad.setdefault("%s/%s" % (t.op, cls), t)
        for k, t in sorted(bad.items()):
            rep.violated("C10/H4/%s/%s" % (ename, k), "no order-sensitive operator consumes a list in line or hash order",
                         construct=where, why="%s" % tm.show(t, 4)[:400])
        if not bad:
            rep.discharged("C10/H4/%s" % ename, "order-carrying lists are only filtered, mapped, summed, tested or sorted",
                           derivation="admitted shapes: %s" % (", ".join("%s x%d" % kv for kv in sorted(adm.items())) or "none"))
    return nsens


def _base_list(x):
    while isinstance(x, tm.T) and x.op in ("collect", "map", "iter", "cloned", "copied", "slice_from", "skip"):
        x = x.a[0]
    return x


def all_equal_test(t, par):
    """The first element of a list is used only in (in)equality tests against every element of the same list under
    `any` / `all` - a test that all elements agree, which does not depend on which one is first."""
    base = _base_list(t.a[0])
    todo = [t]
    seen = set()
    reached = False
    while todo:
        x = todo.pop()
        if x.id in seen:
            continue
        seen.add(x.id)
        ps = par.get(x.id, [])
        if not ps:
            return False
        for p in ps:
            if p.op in ("any", "all"):
                if not (isinstance(p.a[0], tm.T) and _base_list(p.a[0]) is base):
                    return False
                reached = True
            elif p.op in ("ite", "eq", "ne", "not", "and", "or", "lam"):
                if p.op == "ite" and p.a[0] is x:
                    return False          # used as a condition: not a comparison of values
                todo.append(p)
            else:
                return False
    return reached


def tail_all_equal(t, par):
    """slice_from(L, 1) is only the domain of `any`/`all` tests that compare each element with L[0]."""
    base = _base_list(t)
    todo = [t]
    seen = set()
    ok = False
    while todo:
        x = todo.pop()
        if x.id in seen:
            continue
        seen.add(x.id)
        ps = par.get(x.id, [])
        if not ps:
            return False
        for p in ps:
            if p.op in ("iter", "map", "collect", "cloned", "copied"):
                todo.append(p)
            elif p.op in ("any", "all") and isinstance(p.a[1], tm.T) and p.a[1].op == "lam":
                firsts = [y for y in tm.subterms(p.a[1])
                          if ((y.op == "index" and len(y.a) > 1 and y.a[1] is tm.ZERO) or y.op == "first_val")
                          and isinstance(y.a[0], tm.T) and _base_list(y.a[0]) is base]
                if not firsts:
                    return False
                ok = True
            else:
                return False
    return ok


def only_length_use(t, par, root=None):
    """index(L, 0) is consumed only as len(values) (whatever its kind): all components have the same
    number of steps."""
    root = root or t
    for p in par.get(t.id, []):
        if p.op == "proj" and p.a[3] in ("values", "0", None):
            if not only_length_use(p, par, root):
                return False
        elif p.op == "len":
            continue
        elif p.op == "isvar" and t is root:
            # a test of the kind of the first component may only select between lengths
            for q in par.get(p.id, []):
                if not (q.op == "ite" and q.a[0] is p and length_valued(q, root)):
                    return False
        elif p.op == "ite" and p.a[0] is not t:
            if not only_length_use(p, par, root):
                return False
        else:
            return False
    return True


def length_valued(t, root):
    if t.op == "ite":
        return length_valued(t.a[1], root) and length_valued(t.a[2], root)
    if t.op == "len":
        return root in list(tm.subterms(t))
    return t.op in ("num", "garbage", "bottom")


def only_in_err(t, par, depth=0):
    if depth > 12:
        return False
    ps = par.get(t.id, [])
    if not ps:
        return False
    for p in ps:
        if p.op == "adt" and p.a[0] == "Result" and p.a[1] == 1:
            continue
        if p.op in ("proj", "adt", "format", "fmtargs", "fmtarg", "ite"):
            if p.op == "ite" and p.a[0] is t:
                return False
            if not only_in_err(p, par, depth + 1):
                return False
        else:
            return False
    return True


# ------------------------------------------------------------------------------------------ H3
ID_PARENTS = frozenset(["eq", "adt", "upd", "fmtarg", "lam", "ite", "contains", "setinsert", "tuple", "set_insert_new", "collect_set",
                        "seq", "push", "cmp", "debug", "display", "and", "or", "not"])


def h3(ctx, rep, entries):
    n = 0
    for ename, ev, r, where in entries:
        if ename == "from_str":
            continue
        roots = [r]
        for info in ev.loops_info.values():
            roots.extend(info["next"])
        idelems = set()
        for info in ev.loops_info.values():
            src = info["iter"]
            base = src.a[0] if src.op == "iter" else src
            if base.op == "collect_set" and any(t.op == "proj" and t.a[3] == "id" for t in tm.subterms(base)):
                idelems.add(info["elem"])
        bad = {}
        for root in roots:
            for t in tm.subterms(root):
                for x in t.a:
                    if not isinstance(x, tm.T):
                        continue
                    if (x.op == "proj" and x.a[3] == "id") or x in idelems:
                        n += 1
                        if t.op not in ID_PARENTS:
                            bad.setdefault(t.op, t)
        if bad:
            for op, t in sorted(bad.items()):
                rep.violated("C10/H3/%s/%s" % (ename, op), "system ids are only compared, stored, hashed, sorted on or printed",
                             construct=where, why="an id flows into '%s': %s" % (op, tm.show(t, 3)[:300]))
        else:
            rep.discharged("C10/H3/%s" % ename, "ids occur only under equality, set membership, construction, sort key and formatting")
    return n


# ------------------------------------------------------------------------------------------ H6
def h6(ctx, rep, entries, O):
    """Splitting a line into several with the same tags whose values add up: every sum taken over the
    component lines must have a summand that vanishes when the line's own values vanish (a necessary
    condition of additivity in the values; a summand that ignores the line's values - a count, or another
    component's energy added once per line - is multiplied by the split)."""
    total = 0
    for ename, ev, r, where in entries:
        if ename == "from_str":
            continue
        A = alg.Algebra()
        roots = [r]
        seen = set()
        bad = {}
        n = 0
        for root in roots:
            for t in tm.subterms(root):
                if t.id in seen:
                    continue
                seen.add(t.id)
                lam = None
                if t.op in ("sumover", "vsumover"):
                    src, lam = t.a[0], t.a[1]
                elif t.op == "sum" and t.a[0].op == "map":
                    src, lam = t.a[0].a[0], t.a[0].a[1]
                elif t.op == "count":
                    src = t.a[0]
                else:
                    continue
                if O.of(src) != "lines":
                    continue
                n += 1
                if lam is None:
                    bad.setdefault("count", t)
                    continue
                el = tm.sym("cls:line")
                body = tm.apply_lam(lam, [el])
                sub = {}
                for x in tm.subterms(body):
                    if x.op == "proj" and x.a[3] == "values":
                        y = x
                        while y.op == "proj":
                            y = y.a[0]
                        if y is el:
                            sub[x] = tm.mk("rep", tm.ZERO, tm.sym("cls:nsteps"))
                b0 = tm.subst(body, sub) if sub else body
                try:
                    z = A.pw(b0).is_zero() if t.op == "vsumover" else A.scalar(b0).is_zero()
                except alg.NotScalar:
                    z = False
                if not z:
                    bad.setdefault(t.op, t)
        total += n
        for k, t in sorted(bad.items()):
            rep.violated("C10/H6/%s/%s" % (ename, k), "one component written as several lines adding up to it gives the same result",
                         construct=where, why="a sum over the component lines has a summand that does not vanish with the line's values "
                         "(it is repeated once per line): %s" % tm.show(t, 4)[:300])
        if not bad:
            rep.discharged("C10/H6/%s" % ename, "every sum over component lines has a summand that vanishes with the line's own values",
                           derivation="%d reductions" % n)
    return total


# ------------------------------------------------------------------------------------------ H5
BOM = "﻿"


def h5(ctx, rep, evp, rp, where):
    lib = ctx.lib
    # (a) BOM and per-line trimming in Components::from_str
    lines_args = [t.a[0] for t in tm.subterms(rp) if t.op == "lines"]
    for info in evp.loops_info.values():
        lines_args.extend(t.a[0] for t in tm.subterms(info["iter"]) if t.op == "lines")
    okb = bool(lines_args)
    for x in lines_args:
        hasbom = any((t.op in ("strip_prefix_val", "trim_start_matches", "strip_prefix") and any(
            isinstance(y, tm.T) and y.op in ("char", "str") and y.a[0] == BOM for y in t.a)) for t in tm.subterms(x))
        if not hasbom:
            okb = False
    if okb:
        rep.discharged("C10/H5/bom", "a byte-order mark is removed before the text is split into lines")
    else:
        rep.violated("C10/H5/bom", "a byte-order mark in front of the file is ignored", construct=where,
                     why="the text split into lines does not pass through a BOM-stripping operator")
    trimmed = False
    for info in evp.loops_info.values():
        if fn_of(info) != "from_str":
            continue
        for t in tm.subterms(info["iter"]):
            if t.op == "map" and t.a[0].op == "lines" or (t.op == "map" and any(y.op == "lines" for y in tm.subterms(t.a[0]))):
                el = tm.sym("cls:line")
                b = tm.apply_lam(t.a[1], [el])
                if b.op == "trim" and b.a[0] is el:
                    trimmed = True
    if trimmed:
        rep.discharged("C10/H5/line-trim", "every line is trimmed before it is classified (comments, header, blank, data)")
    else:
        rep.violated("C10/H5/line-trim", "surrounding whitespace of a line is ignored", construct=where,
                     why="the lines iterated are not the trimmed lines")
    # (b) per-kind parsers
    n = 0
    for ty in ("EUsed", "EProd", "EAux", "EOut"):
        try:
            b = ctx.find_impl_method(lib, "FromStr", ty, "from_str")
        except AnchorMissing:
            rep.violated("C10/H5/%s/anchor" % ty, "component kinds have a text parser", why="FromStr for %s not found" % ty)
            continue
        n += 1
        ev, r, args = ctx.eval_entry("lib", b)
        s = args[0]
        w = loc_of(b)
        # fields: split on ',' of the text before the first '#', each trimmed
        flists = []
        for t in tm.subterms(r):
            if t.op == "collect" and t.a[0].op == "map" and t.a[0].a[0].op == "split":
                sp = t.a[0].a[0]
                if any(isinstance(y, tm.T) and y.op in ("char", "str") and y.a[0] == "," for y in sp.a):
                    el = tm.sym("cls:field")
                    bdy = tm.apply_lam(t.a[0].a[1], [el])
                    flists.append((t, sp, bdy.op == "trim" and bdy.a[0] is el))
        if not flists:
            rep.violated("C10/H5/%s/fields" % ty, "fields are the comma-separated parts of the line", construct=w,
                         why="no comma split found")
            continue
        F, sp, ftrim = flists[0]
        if ftrim:
            rep.discharged("C10/H5/%s/field-trim" % ty, "every field is trimmed")
        else:
            rep.violated("C10/H5/%s/field-trim" % ty, "whitespace around a field is ignored", construct=w,
                         why="the field list is not mapped through trim")
        src = [y for y in sp.a if isinstance(y, tm.T) and y.op not in ("char", "str", "num")]
        cut = False
        for y in src:
            for t in tm.subterms(y):
                if t.op in ("splitn", "split", "split_once") and any(isinstance(z, tm.T) and z.op in ("char", "str") and z.a[0] == "#" for z in t.a):
                    cut = True
        if cut:
            rep.discharged("C10/H5/%s/comment" % ty, "the text after the first '#' is not part of the fields")
        else:
            rep.violated("C10/H5/%s/comment" % ty, "a trailing comment does not change the declared data", construct=w,
                         why="fields are split from text that still contains the comment")
        # every parse / literal comparison reads a trimmed field
        badp = None
        for t in tm.subterms(r):
            if t.op in ("parses", "parsed"):
                a = t.a[1]
                ok = (a.op == "index" and a.a[0] is F) or a.op == "trim" or (a.op == "sym" and str(a.a[0]).startswith(("elem", "cls", "$")))
                if a.op == "index" and a.a[0] is not F:
                    # slices of the field list (values) are fine
                    ok = ok or F in list(tm.subterms(a.a[0]))
                if not ok and a.op != "bv":
                    badp = a
        if badp is None:
            rep.discharged("C10/H5/%s/parse-inputs" % ty, "numbers and tags are parsed from trimmed fields only")
        else:
            rep.violated("C10/H5/%s/parse-inputs" % ty, "numbers and tags are parsed from trimmed fields only", construct=w,
                         why="parsed text is %s" % tm.show(badp, 3)[:200])
        # optional id
        okl = ok_payloads(r)
        okv = okl[-1] if okl else None
        idt = tm.getf(okv, okv.a[0], "id") if okv is not None and okv.op == "adt" else None
        first = tm.mk("index", F, tm.ZERO)
        okid = False
        base = None
        if idt is not None and idt.op == "ite":
            c, a, b = idt.a
            if c.op == "parses" and c.a[1] is first and b is tm.ZERO and a.op == "parsed" and a.a[1] is first:
                okid = True
                base = tm.ite(c, tm.num(1), tm.ZERO)
        if idt is not None and idt.op == "parsed" and idt.a[1] is first:
            rep.discharged("C10/H5/%s/mandatory-id" % ty, "this kind always carries its id (it cannot be omitted, so there is nothing to default)",
                           nontrivial=False)
        elif okid:
            rep.discharged("C10/H5/%s/optional-id" % ty, "a line without id gets id 0; with id 0 written it parses to the same component")
        else:
            rep.violated("C10/H5/%s/optional-id" % ty, "omitting the id is the same as writing id 0", construct=w,
                         why="id is %s" % (tm.show(idt, 3)[:200] if idt is not None else "not found"))
        if base is not None:
            # no field shift: every other field index is base + k
            shift_bad = None
            for t in tm.subterms(okv):
                if t.op == "index" and t.a[0] is F and t is not first:
                    ix = t.a[1]
                    if not (ix is base or (ix.op == "add" and ix.a[0] is base and ix.a[1].op == "num")):
                        shift_bad = ix
            if shift_bad is None:
                rep.discharged("C10/H5/%s/no-shift" % ty, "the remaining fields are read relative to the presence of the id")
            else:
                rep.violated("C10/H5/%s/no-shift" % ty, "the remaining fields are read relative to the presence of the id",
                             construct=w, why="field index %s" % tm.show(shift_bad, 3)[:160])
    return n
