"""C02 Results equal the EN ISO 52000-1 balance equations (formula conformance; DESIGN §5/C02).

The normal form of every weighted-energy output of energy_performance is compared with the
normal form of an independent transcription of equations (2), (20)-(28) and E.3.6 over the same
intermediate quantities; F(key) is the crate's own public `Factors::find` evaluated on the factor
set the result reports, with the key the standard prescribes."""
from epbd import term as tm, alg, order
from epbd.models import res_ok
from . import epmodel
from .epmodel import get, emap_items
from .common import loc_of, AnchorMissing
from .c01 import make_base_nonneg, component_classes, gate_of, only_values_leaves

SRC_OF = {"EL_INSITU": "INSITU", "EL_COGEN": "COGEN", "TERMOSOLAR": "INSITU", "EAMBIENTE": "INSITU"}
COMP = ("ren", "nren", "co2")


def enumv(path, name):
    for i, (n, _f) in tm.ADT_NAMES[path].items():
        if n == name:
            return tm.adt(path, i)
    raise AnchorMissing("%s::%s" % (path, name))


class Lookup(object):
    def __init__(self, ctx, wf):
        self.ctx = ctx
        self.wf = wf
        self.body = ctx.find_public_fn(ctx.lib, "Factors::find")
        self.cache = {}

    def F(self, carrier_idx, source, dest, step):
        k = (carrier_idx, source, dest, step)
        if k not in self.cache:
            args = [self.wf, tm.adt("Carrier", carrier_idx), enumv("Source", source), enumv("Dest", dest),
                    enumv("Step", step)]
            ev, r, _a = self.ctx.eval_entry("lib", self.body, args=args)
            self.cache[k] = res_ok(r)
        return self.cache[k]


def rmul(x, f):
    """scalar * RenNrenCo2 term -> dict of component terms"""
    return dict((c, tm.mul(x, tm.getf(f, "RenNrenCo2", c))) for c in COMP)


def radd(a, b, sign=1):
    return dict((c, (tm.add if sign > 0 else tm.sub)(a[c], b[c])) for c in COMP)


ZERO3 = dict((c, tm.ZERO) for c in COMP)


def run(ctx, rep):
    rep.rule = ("normal form of each weighted-energy leaf == normal form of the transcribed equation over the same "
                "flows, with F(carrier, source, dest, step) = Factors::find on the reported factor set")
    rep.explanation = ("Formula conformance for all inputs: which energy quantity is multiplied by which factor key "
                       "(destination, step, source), the export-share averaging weights, step A/AB/B composition with "
                       "k_exp, and the by-service shares (E.3.6).  A wrong key or weight changes the normal form even "
                       "when it cancels on every sampled factor set.")
    rep.assumptions = ["A2 real arithmetic", "A1 non-negative annual energies (absorbing zero guards)",
                       "transcription of EN ISO 52000-1 (2),(20)-(28),E.3.6 in this file is the oracle",
                       "not decided: numeric tolerance, factor values, first-match on repeated keys"]
    n = 0
    for lm in (False,):
        e = epmodel.ep(ctx, lm)
        where = loc_of(e.body)
        A = alg.Algebra()
        P = order.Prover(A, make_base_nonneg(e))

        def oracle(term):
            P.steps = 0
            try:
                return P.nonneg(A.scalar(term))
            except alg.NotScalar:
                return False
        A.nonneg_oracle = oracle
        L = Lookup(ctx, e.field("wfactors"))
        K = e.params["k_exp"]
        for (ci, cname, pres, bc) in e.carriers():
            if pres is tm.FALSE:
                continue
            Fgrid = L.F(ci, "RED", "SUMINISTRO", "A")
            Fons = L.F(ci, "INSITU", "SUMINISTRO", "A")
            exp_an = get(bc, "exp", "an")
            want = {}
            want["del_grid"] = rmul(get(bc, "del", "grid_an"), Fgrid)
            want["del_cgn"] = rmul(get(bc, "del", "cgn_an"), Fgrid)
            want["del_onst"] = rmul(get(bc, "del", "onst_an"), Fons)
            want["del"] = radd(radd(want["del_grid"], want["del_onst"]), want["del_cgn"])

            nep, grd = get(bc, "exp", "nepus_an"), get(bc, "exp", "grid_an")

            def favg(dest, step):
                out = dict(ZERO3)
                for sname, sp, sv in emap_items(get(bc, "exp", "by_src_an")):
                    if sp is tm.FALSE:
                        continue
                    f = L.F(ci, SRC_OF[sname], dest, step)
                    w = tm.div(sv, exp_an)
                    for c in COMP:
                        out[c] = tm.add(out[c], tm.ite(sp, tm.mul(tm.getf(f, "RenNrenCo2", c), w), tm.ZERO))
                return out
            # a destination that receives nothing contributes nothing (absorbing guard: x*f = 0 when x = 0)
            def guarded(x, f):
                return dict((c, tm.ite(tm.eq(x, tm.ZERO), tm.ZERO, f[c])) for c in COMP)
            fnA, fgA = guarded(nep, favg("A_NEPB", "A")), guarded(grd, favg("A_RED", "A"))
            fnB, fgB = guarded(nep, favg("A_NEPB", "B")), guarded(grd, favg("A_RED", "B"))
            want["exp_nepus_a"] = dict((c, tm.mul(nep, fnA[c])) for c in COMP)
            want["exp_grid_a"] = dict((c, tm.mul(grd, fgA[c])) for c in COMP)
            want["exp_a"] = radd(want["exp_nepus_a"], want["exp_grid_a"])
            want["exp_nepus_ab"] = dict((c, tm.mul(nep, tm.sub(fnB[c], fnA[c]))) for c in COMP)
            want["exp_grid_ab"] = dict((c, tm.mul(grd, tm.sub(fgB[c], fgA[c]))) for c in COMP)
            want["exp_ab"] = radd(want["exp_nepus_ab"], want["exp_grid_ab"])
            want["exp"] = dict((c, tm.add(want["exp_a"][c], tm.mul(K, want["exp_ab"][c]))) for c in COMP)
            want["a"] = radd(want["del"], want["exp_a"], -1)
            want["b"] = radd(want["del"], want["exp"], -1)
            # nothing exported: every exported term is zero (the code skips the branch)
            noexp = alg.term_addends(exp_an) or [exp_an]
            we = get(bc, "we")
            for fld in ("del_grid", "del_cgn", "del_onst", "del", "exp_nepus_a", "exp_grid_a", "exp_a",
                        "exp_nepus_ab", "exp_grid_ab", "exp_ab", "exp", "a", "b"):
                got_r = tm.getf(we, "WeightedEnergy", fld)
                for c in COMP:
                    n += 1
                    key = "C02/%s.%s/%s" % (fld, c, cname)
                    got = A.reduce(A.scalar(tm.getf(got_r, "RenNrenCo2", c)))
                    exp_t = want[fld][c]
                    w = A.reduce(A.scalar(exp_t))
                    if got != w:
                        # the transcription divides by exp.an; where nothing is exported both sides are 0
                        w0 = A.reduce(A.scalar(tm.ite(tm.eq(exp_an, tm.ZERO),
                                                      tm.subst(exp_t, dict((x, tm.ZERO) for x in noexp)), exp_t)))
                        if got == w0:
                            w = w0
                    if got == w:
                        rep.discharged(key, "we.%s.%s follows the standard's equation" % (fld, c),
                                       derivation="nf equal (%d monomials)" % len(w.m), nontrivial=(len(w.m) > 0))
                    else:
                        rep.violated(key, "we.%s.%s = transcribed EN ISO 52000-1 expression" % (fld, c), construct=where,
                                     why="code - standard = %s" % A.show(alg.padd(got, w, -1), 2)[:500])
            # by service (E.3.6 reverse calculation)
            epus_an = get(bc, "used", "epus_an")
            for step_f, tot_f in (("a_by_srv", "a"), ("b_by_srv", "b")):
                srv_an = dict((nme, (p, v)) for nme, p, v in emap_items(get(bc, "used", "epus_by_srv_an")))
                for sname, sp, sv in emap_items(tm.getf(we, "WeightedEnergy", step_f)):
                    if sp is tm.FALSE:
                        continue
                    up, uv = srv_an.get(sname, (tm.FALSE, tm.ZERO))
                    share = tm.ite(tm.lt(tm.ZERO, epus_an), tm.div(uv, epus_an), tm.ZERO)
                    for c in COMP:
                        n += 1
                        key = "C02/%s[%s].%s/%s" % (step_f, sname, c, cname)
                        # both sides are compared where the entry exists (the value of an absent key is meaningless)
                        got = A.assume_conditions(A.reduce(A.scalar(tm.getf(sv, "RenNrenCo2", c))), [sp])
                        w = A.assume_conditions(A.reduce(A.scalar(tm.mul(tm.getf(tm.getf(we, "WeightedEnergy", tot_f), "RenNrenCo2", c), share))), [sp])
                        if got == w and sp is up:
                            rep.discharged(key, "we.%s[%s].%s = we.%s * share of service use" % (step_f, sname, c, tot_f))
                        else:
                            rep.violated(key, "we.%s[%s].%s = we.%s * used_by_srv/used (E.3.6)" % (step_f, sname, c, tot_f),
                                         construct=where, why="code - standard = %s" % A.show(alg.padd(got, w, -1), 2)[:400])
        # derived factors for cogenerated electricity (documented assumption of the property)
        el = [x for x in e.carriers() if x[1] == "ELECTRICIDAD"]
        if el:
            ci = el[0][0]

            def unlet(t):
                """the derived (pushed) value among the cases of a lookup on the reported factor set"""
                leaves_ = []

                def walk(x):
                    if x.op == "ite":
                        walk(x.a[1])
                        walk(x.a[2])
                    else:
                        leaves_.append(x)
                walk(t)
                lets = set(x for x in leaves_ if x.op == "let")
                if len(lets) == 1:
                    return lets.pop().a[0]
                pushed = [x for x in leaves_ if x.op != "proj" or "find_val" not in tm.show(x, 3)]
                return pushed[-1] if pushed else t
            fa = [L.F(ci, "COGEN", d, "A") for d in ("SUMINISTRO", "A_NEPB", "A_RED")]
            grid = L.F(ci, "RED", "SUMINISTRO", "A")
            for c in COMP:
                polys = [A.scalar(unlet(tm.getf(f, "RenNrenCo2", c))) for f in fa]
                key = "C02/cgn/stepA-same/%s" % c
                if polys[0] == polys[1] == polys[2]:
                    rep.discharged(key, "supply, to-nEPB and to-grid step A factors of cogenerated electricity coincide")
                else:
                    rep.violated(key, "step A factors of cogenerated electricity are one derived factor", construct=where)
                key = "C02/cgn/shape/%s" % c
                ok, why = cgn_shape(A, polys[0])
                if ok:
                    rep.discharged(key, "cogeneration factor = Σ_cr F(cr,RED,SUMINISTRO,A) * Σ_t input_cr / Σ_t cogenerated electricity",
                                   derivation="%d fuel-carrier terms" % len(polys[0].m))
                else:
                    rep.violated(key, "cogenerated-electricity factor = weighted cogeneration input / cogenerated electricity",
                                 construct=where, why=why)
                if ok and c == "ren":
                    # which component lines the numerators and the denominator count (class representatives):
                    # every CONSUMO,COGEN line of the factor's carrier / every PRODUCCION,EL_COGEN line, nothing else
                    for key2, clause2, ok2, why2 in cgn_terms(A, L, polys[0], c):
                        if ok2:
                            rep.discharged(key2, clause2)
                        else:
                            rep.violated(key2, clause2, construct=where, why=why2)
                for d in ("A_NEPB", "A_RED"):
                    fb = L.F(ci, "COGEN", d, "B")
                    key = "C02/cgn/stepB/%s/%s" % (d, c)
                    gp = A.scalar(tm.getf(grid, "RenNrenCo2", c))
                    if any(A.scalar(x) == gp for x in ite_leaves(tm.getf(fb, "RenNrenCo2", c))):
                        rep.discharged(key, "step B factor of exported cogenerated electricity = grid supply factor")
                    else:
                        rep.violated(key, "step B factor of exported cogenerated electricity = electricity grid factor",
                                     construct=where)
    # equations (9)-(12) and (32): allocation of production by priority and the load-matching factor are decided
    # by the C12 pack on the ELECTRICIDAD instance, re-stated here because they are equations of the standard
    from . import c12
    from .common import Report
    sub12 = Report("C12")
    c12.run(ctx, sub12)
    al = [o for o in sub12.obligations if o.key.startswith(("C12/b/", "C12/c/"))]
    if len(al) < 6:
        rep.violated("C02/eq9-12/anchor", "the allocation of produced electricity is analysable", why="%d C12 obligations" % len(al))
    for o in al:
        k = "C02/eq9-12/" + "/".join(o.key.split("/")[1:])
        if o.status == "discharged":
            rep.discharged(k, "EN ISO 52000-1 (9)-(12),(32): " + o.clause, nontrivial=False)
        else:
            rep.violated(k, "produced electricity is allocated by (9)-(12) and matched by (32)", construct=o.construct, why=o.why)
    rep.analysed = {"weighted_leaves_compared": n, "lookup_keys": "Factors::find evaluated with the prescribed keys"}
    rep.floor("weighted-leaves", n, 12 * 13 * 3)


def cgn_shape(A, p):
    """Every monomial: [presence]* F_atom * Σ_t(input) * (Σ_t electricity)^-1, one common denominator."""
    if p.is_zero():
        return False, "factor is identically zero"
    dens = set()
    for mono, c in p.m.items():
        if c != 1:
            return False, "coefficient %s" % c
        kinds = {}
        for aid, pw in mono:
            a = A.atoms[aid]
            kinds.setdefault((a.kind, pw), []).append(a)
        num = kinds.get(("sumt", 1), [])
        den = kinds.get(("sumt", -1), []) + kinds.get(("poly", -1), [])
        fac = kinds.get(("term", 1), [])
        other = [k for k in kinds if k not in (("sumt", 1), ("sumt", -1), ("poly", -1), ("term", 1), ("ind", 1), ("ind", -1))]
        if len(num) != 1 or len(den) != 1 or len(fac) != 1 or other:
            return False, "monomial is not factor * Σ input / Σ production: %s" % A.show(alg.Poly({mono: c}), 2)[:300]
        dens.add(den[0].id)
    if len(dens) != 1:
        return False, "different denominators"
    return True, ""


def _all_classes():
    """(name, kind, service|source, carrier|None, representative) for every class of component line"""
    names = tm.ADT_NAMES
    out = []
    seen = set()
    for cj in sorted(names["Carrier"]):
        for cls_name, comp in component_classes(cj):
            kind = cls_name.split("/")[0]
            if kind != "Used":
                if cls_name in seen:
                    continue
                seen.add(cls_name)
                out.append((cls_name, kind, cls_name.split("/")[1], None, comp))
            else:
                out.append(("%s/%s" % (cls_name, names["Carrier"][cj][0]), kind, cls_name.split("/")[1],
                            names["Carrier"][cj][0], comp))
    ev_idx = dict((n, i) for i, (n, _f) in names["Energy"].items())
    fs = tm.field_names("EOut", 0)
    for s_, (sn, _f) in sorted(names["Service"].items()):
        rec = tm.adt("EOut", 0, *[tm.adt("Service", s_) if f == "service" else tm.sym("cls:EOut.%s" % f) for f in fs])
        out.append(("Out/%s" % sn, "Out", sn, None, tm.adt("Energy", ev_idx["Out"], rec)))
    return out


def _component_sum(A, atom):
    """[(iterator, lambda)] when the atom is Σ_t of Σ over component lines of their values, else None"""
    if atom.kind != "sumt":
        return None
    p = atom.parts[0]
    out = []
    for mono, c in p.m.items():
        if c != 1 or len(mono) != 1 or mono[0][1] != 1:
            return None
        ea = A.atoms[mono[0][0]]
        t = ea.term
        if t is None or t.op != "vsumover":
            return None
        base = t.a[0]
        while base.op in ("filter",):
            base = base.a[0]
        if base.op != "iter" or "components" not in tm.show(base, 3) or base.a[0].op in ("collect", "filter_map", "map"):
            return None
        x = tm.fresh("c")
        if not only_values_leaves(tm.apply_lam(t.a[1], [x]), x):
            return None
        out.append((t.a[0], t.a[1]))
    return out


def _counted(sums, want):
    """compare the classes counted by a list of component sums with the predicate `want(kind, tag, carrier)`"""
    for cls_name, kind, tag, car, comp in _all_classes():
        n = 0
        for it, _lam in sums:
            g = gate_of(it, comp)
            if g is tm.TRUE:
                n += 1
            elif g is not tm.FALSE:
                return False, "the gate does not decide class %s: %s" % (cls_name, tm.show(g, 3)[:200])
        w = 1 if want(kind, tag, car) else 0
        if n != w:
            return False, "%s lines are counted %d time(s), expected %d" % (cls_name, n, w)
    return True, ""


def cgn_terms(A, L, p, comp):
    """Obligations on the sums of the derived cogeneration factor Σ_cr F(cr)·Σ input_cr / Σ production."""
    names = tm.ADT_NAMES
    f_atom = {}
    for cj, (cn, _f) in sorted(names["Carrier"].items()):
        fp = A.scalar(tm.getf(L.F(cj, "RED", "SUMINISTRO", "A"), "RenNrenCo2", comp))
        if len(fp.m) == 1:
            (mono, c), = fp.m.items()
            if c == 1 and len(mono) == 1 and mono[0][1] == 1:
                f_atom[mono[0][0]] = cn
    out = []
    den_done = False
    seen_carriers = set()
    for mono, _c in p.m.items():
        num = [A.atoms[a] for a, pw in mono if A.atoms[a].kind == "sumt" and pw == 1]
        den = [A.atoms[a] for a, pw in mono if A.atoms[a].kind == "sumt" and pw == -1]
        fac = [a for a, pw in mono if A.atoms[a].kind == "term" and pw == 1]
        cn = f_atom.get(fac[0]) if len(fac) == 1 else None
        if cn is None or len(num) != 1:
            out.append(("C02/cgn/input/?", "each addend of the cogeneration factor is F(cr,RED,SUMINISTRO,A)·Σ input_cr", False,
                        "factor atom is not a grid supply factor lookup: %s" % A.show(alg.Poly({mono: 1}), 2)[:200]))
            continue
        if cn in seen_carriers:
            continue
        seen_carriers.add(cn)
        sums = _component_sum(A, num[0])
        if sums is None:
            ok, why = False, "numerator is not a Σ over component lines of their values: %s" % num[0].desc
        else:
            ok, why = _counted(sums, lambda kind, tag, car: kind == "Used" and tag == "COGEN" and car == cn)
        out.append(("C02/cgn/input/%s" % cn, "the input paired with F(%s) is the sum of all CONSUMO,COGEN lines of %s and nothing else" % (cn, cn),
                    ok, why))
        if not den_done:
            den_done = True
            sums = _component_sum(A, den[0]) if len(den) == 1 else None
            if sums is None:
                ok, why = False, "denominator is not a Σ over component lines of their values"
            else:
                ok, why = _counted(sums, lambda kind, tag, car: kind == "Prod" and tag == "EL_COGEN")
            out.append(("C02/cgn/production", "the denominator is the sum of all PRODUCCION,EL_COGEN lines and nothing else", ok, why))
    if len(seen_carriers) < len(names["Carrier"]) - 0 and not any(not o[2] for o in out):
        missing = sorted(set(n for n, _f in names["Carrier"].values()) - seen_carriers)
        if missing:
            out.append(("C02/cgn/input/coverage", "every carrier that can feed the cogeneration has its addend", False,
                        "no addend for %s" % missing))
    return out


def ite_leaves(t):
    out = []

    def walk(x):
        if x.op == "ite":
            walk(x.a[1])
            walk(x.a[2])
        else:
            out.append(x)
    walk(t)
    return out
