"""C04 Totals equal the sum of their breakdowns; per-m2 values equal totals / area (DESIGN §5/C04).

Every leaf of the returned `balance` (enumerated from the value, i.e. from the type) must be the
sum over carriers of its documented per-carrier twin, with coefficient exactly 1; every leaf of
`balance_m2` must be the `balance` leaf times k_area; RER values and inputs do not see the area.
"""
from epbd import term as tm, alg, order
from . import epmodel
from .epmodel import get, leaves, pstr, emap_items
from .common import loc_of, AnchorMissing

# total leaf (group, field) -> per-carrier twin (group, field); maps pair entry-wise by key.
PAIR = {
    ("used", "epus"): ("used", "epus_an"), ("used", "nepus"): ("used", "nepus_an"),
    ("used", "cgnus"): ("used", "cgnus_an"), ("used", "epus_by_srv"): ("used", "epus_by_srv_an"),
    ("prod", "an"): ("prod", "an"), ("prod", "by_src"): ("prod", "by_src_an"),
    ("prod", "epus_by_src"): ("prod", "epus_by_src_an"),
    ("prod", "epus_by_srv_by_src"): ("prod", "epus_by_srv_by_src_an"),
    ("del", "an"): ("del", "an"), ("del", "onst"): ("del", "onst_an"), ("del", "grid"): ("del", "grid_an"),
    ("exp", "an"): ("exp", "an"), ("exp", "grid"): ("exp", "grid_an"), ("exp", "nepus"): ("exp", "nepus_an"),
    ("we", "a"): ("we", "a"), ("we", "b"): ("we", "b"), ("we", "del"): ("we", "del"),
    ("we", "exp_a"): ("we", "exp_a"), ("we", "exp"): ("we", "exp"),
    ("we", "a_by_srv"): ("we", "a_by_srv"), ("we", "b_by_srv"): ("we", "b_by_srv"),
}
# maps keyed by carrier: the entry of carrier c is the twin scalar of carrier c alone
BY_CARRIER = {
    ("used", "epus_by_cr"): ("used", "epus_an"), ("prod", "by_cr"): ("prod", "an"),
    ("del", "grid_by_cr"): ("del", "grid_an"),
}
# used.epus_by_cr_by_srv[s][c] <- used.epus_by_srv_an[s] of carrier c
BY_SRV_BY_CARRIER = {("used", "epus_by_cr_by_srv"): ("used", "epus_by_srv_an")}
NEEDS = ("needs",)


def twin_leaf(bc, twin, keys, comp):
    """(value term, presence gates) of the per-carrier twin at map keys `keys`, component comp."""
    t = get(bc, *twin)
    gates = []
    for k in keys:
        if t.op != "emap":
            return None, None
        found = None
        for name, pres, val in emap_items(t):
            if "[%s]" % name == k:
                found = (pres, val)
        if found is None or found[0] is tm.FALSE:
            return tm.ZERO, [tm.FALSE]
        gates.append(found[0])
        t = found[1]
    for c in comp:
        if t.op != "adt":
            return None, None
        t = tm.getf(t, t.a[0], c)
    return t, gates


def split_path(p):
    """('we','b_by_srv','[ACS]','ren') -> group, field, keys, component"""
    grp, fld = p[0], p[1]
    keys = [x for x in p[2:] if x.startswith("[")]
    comp = [x for x in p[2:] if not x.startswith("[")]
    return grp, fld, keys, comp


def run(ctx, rep):
    rep.rule = ("every leaf of EnergyPerformance.balance (enumerated from the value/type) equals, as a polynomial "
                "normal form with 0/1 presence indicators, the sum over the 12 carriers of its documented twin; "
                "breakdowns inside a carrier add up; balance_m2 leaf = balance leaf * k_area; RER/inputs area-free")
    rep.explanation = ("Accumulation and area scaling are checked on every field at once: the value graph of "
                       "energy_performance gives each total as a term; its normal form must coincide with "
                       "Σ_carriers [carrier present]·twin for every input.  A forgotten, doubled or mis-paired "
                       "field changes the normal form.")
    rep.assumptions = ["A2 real arithmetic", "A1 non-negative annual energies (for the documented != 0 guards)",
                       "A3/A4 front end and std models"]
    n_tot = 0
    n_m2 = 0
    for lm in (False,):
        e = epmodel.ep(ctx, lm)
        where = loc_of(e.body)
        A = alg.Algebra()
        from .c01 import make_base_nonneg
        P = order.Prover(A, make_base_nonneg(e))

        def oracle(term):
            P.steps = 0
            try:
                return P.nonneg(A.scalar(term))
            except alg.NotScalar:
                return False
        A.nonneg_oracle = oracle
        carriers = [(ci, cn, pres, bc) for (ci, cn, pres, bc) in e.carriers() if pres is not tm.FALSE]
        bal = e.field("balance")
        bal_m2 = e.field("balance_m2")
        area = e.params.get("arearef")
        # ---------------------------------------------------------------- (a) accumulation
        for p, t, gates in leaves(bal, ()):
            grp, fld, keys, comp = split_path(p)
            key = "C04/acc/%s" % pstr(p)
            n_tot += 1
            if grp == "needs":
                # copied from the inputs: Σ_t of the declared demand
                comps = e.params.get("components")
                if comps is None or comps not in tm.free_syms(t) or any(
                        s is not comps for s in tm.free_syms(t)):
                    rep.violated(key, "balance.%s is the annual sum of the declared demand" % pstr(p),
                                 construct=where, why="depends on %s" % [s.a[0] for s in tm.free_syms(t)])
                else:
                    rep.discharged(key, "balance.%s copied from the declared demand" % pstr(p), nontrivial=False)
                continue
            try:
                lhs = A.scalar(t)
            except alg.NotScalar as ex:
                rep.underivable(key, "balance.%s is a scalar" % pstr(p), construct=where, why=str(ex))
                continue
            rhs = alg.Poly()
            ok = True
            if (grp, fld) in PAIR:
                twin = PAIR[(grp, fld)]
                for ci, cn, pres, bc in carriers:
                    tv, tg = twin_leaf(bc, twin, keys, comp)
                    if tv is None:
                        ok = False
                        break
                    g = tm.and_(pres, *tg)
                    if g is tm.FALSE:
                        continue
                    rhs = alg.padd(rhs, alg.pmul(A.ind(g), A.scalar(tv)))
            elif (grp, fld) in BY_CARRIER:
                twin = BY_CARRIER[(grp, fld)]
                for ci, cn, pres, bc in carriers:
                    if "[%s]" % cn != keys[0]:
                        continue
                    tv, tg = twin_leaf(bc, twin, [], comp)
                    rhs = alg.padd(rhs, alg.pmul(A.ind(pres), A.scalar(tv)))
            elif (grp, fld) in BY_SRV_BY_CARRIER:
                twin = BY_SRV_BY_CARRIER[(grp, fld)]
                for ci, cn, pres, bc in carriers:
                    if "[%s]" % cn != keys[1]:
                        continue
                    tv, tg = twin_leaf(bc, twin, [keys[0]], comp)
                    if tv is None:
                        ok = False
                        break
                    g = tm.and_(pres, *tg)
                    if g is not tm.FALSE:
                        rhs = alg.padd(rhs, alg.pmul(A.ind(g), A.scalar(tv)))
            else:
                rep.violated(key, "every leaf of Balance has a documented per-carrier source",
                             construct=where, why="field balance.%s is not in the pairing table (new field not accumulated?)" % pstr(p))
                continue
            if not ok:
                rep.underivable(key, "twin of balance.%s exists per carrier" % pstr(p), construct=where)
                continue
            if lhs == rhs:
                rep.discharged(key, "balance.%s = Σ_carriers twin" % pstr(p),
                               derivation="%d gated summands; nf equal" % len(rhs.m))
            else:
                rep.violated(key, "balance.%s = Σ_carriers %s" % (pstr(p), ".".join(PAIR.get((grp, fld), BY_CARRIER.get((grp, fld), ("?",))))),
                             construct=where, why="total - Σ twins = %s" % A.show(alg.padd(lhs, rhs, -1), 2)[:500])
        # ---------------------------------------------------------------- (b) breakdowns inside one carrier
        for ci, cn, pres, bc in carriers:
            tag = cn
            ids = [("del.an = grid_an + onst_an + cgn_an", A.scalar(get(bc, "del", "an")),
                    alg.padd(alg.padd(A.scalar(get(bc, "del", "grid_an")), A.scalar(get(bc, "del", "onst_an"))),
                             A.scalar(get(bc, "del", "cgn_an")))),
                   ("exp.an = grid_an + nepus_an", A.scalar(get(bc, "exp", "an")),
                    alg.padd(A.scalar(get(bc, "exp", "grid_an")), A.scalar(get(bc, "exp", "nepus_an"))))]
            s = alg.Poly()
            for name, sp, sv in emap_items(get(bc, "prod", "by_src_an")):
                if sp is not tm.FALSE:
                    s = alg.padd(s, alg.pmul(A.ind(sp), A.scalar(sv)))
            ids.append(("prod.an = Σ_src prod.by_src_an", A.scalar(get(bc, "prod", "an")), s))
            for clause, l, r in ids:
                key = "C04/brk/%s/%s" % (clause.split(" ")[0], tag)
                if l == r:
                    rep.discharged(key, clause)
                else:
                    rep.violated(key, clause, construct=where,
                                 why="lhs - rhs = %s" % A.show(alg.padd(l, r, -1), 2)[:500])
            # EPB use by service: the per-service accumulators partition the lines the total counts (class
            # representatives), with the same summand - hence used.epus = Σ_s used.epus_by_srv[s], per step and per year
            from .c01 import summands, gate_of, component_classes
            try:
                tot = summands(get(bc, "used", "epus_t"))
                parts = []
                for sname, sp, sv in emap_items(get(bc, "used", "epus_by_srv_t")):
                    if sp is tm.FALSE or sv is tm.GARBAGE:
                        continue              # never present (a value that no path can produce is garbage)
                    ss = summands(sv)
                    parts.append((sname, ss))
                shape = tot is not None and all(ss is not None for _n, ss in parts)
            except AnchorMissing:
                shape = False
            key = "C04/brk/used.epus=Σsrv/%s" % tag
            if not shape:
                rep.underivable(key, "used.epus_t and used.epus_by_srv_t are sums over component lines", construct=where)
            else:
                bad = None
                for cls_name, comp in component_classes(ci):
                    # what a counted line contributes: the same term in the total and in its service (on the representative)
                    vt = set(tm.apply_lam(l, [comp]).id for it, l in tot if gate_of(it, comp) is tm.TRUE)
                    for sname, ss in parts:
                        for it, l in ss:
                            if gate_of(it, comp) is tm.TRUE and tm.apply_lam(l, [comp]).id not in vt:
                                bad = bad or "a %s line contributes differently to service %s and to the total" % (cls_name, sname)
                    def count(sm):
                        n = 0
                        for it, _l in sm:
                            g = gate_of(it, comp)
                            if g is tm.TRUE:
                                n += 1
                            elif g is not tm.FALSE:
                                return None
                        return n
                    nt = count(tot)
                    ns = [count(ss) for _n, ss in parts]
                    if nt is None or any(x is None for x in ns):
                        bad = bad or "a gate does not decide class %s" % cls_name
                    elif nt != sum(ns):
                        bad = bad or "%s lines: counted %d time(s) in the total, %d time(s) over the services" % (cls_name, nt, sum(ns))
                if bad:
                    rep.violated(key, "EPB use by service adds up to the EPB use of the carrier", construct=where, why=bad)
                else:
                    rep.discharged(key, "EPB use by service adds up to the EPB use of the carrier (partition of the counted lines)")
        # weighted energy by service: each entry = total × (use of the service / use of the carrier) (C02's E.3.6 rule,
        # re-stated) which, with the partition above, makes the by-service values add up to the carrier's total
        if lm is False:
            from . import c02
            from .common import Report
            sub2 = Report("C02")
            c02.run(ctx, sub2)
            bs = [o for o in sub2.obligations if o.key.startswith(("C02/a_by_srv[", "C02/b_by_srv["))]
            if len(bs) < 12:
                rep.violated("C04/brk/we-by-srv/anchor", "the by-service weighted energy is analysable", why="%d C02 obligations" % len(bs))
            for o in bs:
                k = "C04/brk/we-by-srv/" + o.key[len("C02/"):]
                if o.status == "discharged":
                    rep.discharged(k, "weighted energy by service = carrier total × share of the service in the EPB use", nontrivial=False)
                else:
                    rep.violated(k, "weighted energy by service adds up to the carrier's weighted energy (each entry = total × use share)",
                                 construct=o.construct, why=o.why)
        # ---------------------------------------------------------------- (c) area
        if area is None:
            rep.violated("C04/anchor/arearef", "energy_performance has a parameter arearef", construct=where)
            return
        pa = A.scalar(area)
        karea = A.sx(tm.ite(tm.eq(area, tm.ZERO), tm.ZERO, tm.div(tm.ONE, area)), None)
        m2 = dict((p, (t, g)) for p, t, g in leaves(bal_m2, ()))
        tot = dict((p, (t, g)) for p, t, g in leaves(bal, ()))
        for p, (t, gates) in tot.items():
            key = "C04/m2/%s" % pstr(p)
            n_m2 += 1
            if p not in m2:
                rep.violated(key, "balance_m2.%s exists" % pstr(p), construct=where,
                             why="the per-m2 balance lacks this leaf (or its map entry has another presence)")
                continue
            if p and p[0] == "needs":
                c1, v1 = option_parts(m2[p][0])
                c0, v0 = option_parts(t)
                okn = c1 is c0
                if okn:
                    try:
                        okn = A.scalar(v1) == alg.pmul(A.scalar(v0), karea)
                    except alg.NotScalar:
                        okn = False
                if okn:
                    rep.discharged(key, "balance_m2.%s = balance.%s * k_area (when declared)" % (pstr(p), pstr(p)))
                else:
                    rep.violated(key, "balance_m2.%s = balance.%s / area" % (pstr(p), pstr(p)), construct=where)
                continue
            try:
                # a map entry is compared where it exists: presence gates taken as true
                sub = dict((g, tm.TRUE) for g in m2[p][1])
                l = A.scalar(tm.subst(m2[p][0], sub) if sub else m2[p][0])
                r = alg.pmul(A.scalar(t), karea)
            except alg.NotScalar as ex:
                rep.underivable(key, "balance_m2.%s is a scalar" % pstr(p), construct=where, why=str(ex))
                continue
            if l != r and gates:
                l = resolve_indicators(A, alg.padd(l, r, -1), list(gates), e.ev)
                r = alg.Poly()
            if l == r and same_gates(m2[p][1], gates, e.ev):
                rep.discharged(key, "balance_m2.%s = balance.%s * k_area" % (pstr(p), pstr(p)))
            else:
                rep.violated(key, "balance_m2.%s = balance.%s / area" % (pstr(p), pstr(p)), construct=where,
                             why="m2 - total*k_area = %s" % A.show(alg.padd(l, r, -1), 2)[:400])
        for p in m2:
            if p not in tot:
                rep.violated("C04/m2/extra/%s" % pstr(p), "balance_m2 has no leaf without a balance twin", construct=where)
        for name in ("rer", "rer_nrb", "rer_onst", "k_exp", "components", "wfactors", "balance", "balance_cr"):
            t = e.field(name)
            key = "C04/areafree/%s" % name
            if area in tm.free_syms(t):
                rep.violated(key, "%s does not depend on the reference area" % name, construct=where)
            else:
                rep.discharged(key, "%s does not depend on the reference area" % name, nontrivial=False)
        # the area may only gate the documented rejection
        from epbd.sym import _atoms
        bad_gate = None
        for g in e.ok_gates:
            for x in _atoms(g):
                if area in tm.free_syms(x):
                    lit_cmp = x.op in ("le", "lt") and any(y is area for y in x.a) and any(y.op == "num" for y in x.a)
                    if not lit_cmp:
                        bad_gate = x
        if bad_gate is None:
            rep.discharged("C04/areagate", "the area only gates the documented < 1e-3 rejection", nontrivial=False)
        else:
            rep.violated("C04/areagate", "the area only gates the documented rejection", construct=where,
                         why=tm.show(bad_gate, 4))
    by_source_priority(ctx, rep)
    by_service_by_source(ctx, rep)
    rep.analysed = {"balance_leaves": n_tot, "balance_m2_leaves": n_m2}
    rep.floor("balance-leaves", n_tot, 100)
    rep.floor("balance-m2-leaves", n_m2, 100)


def proportional_only(A, l, r):
    return False


def same_gates(g1, g2, ev):
    """Presence gates of nested map entries agree (propositionally), each level compared
    where the outer level exists."""
    if len(g1) != len(g2):
        return False
    outer = []
    for a, b in zip(g1, g2):
        if a is not b:
            if not (unsat(ev, outer + [a, tm.not_(b)]) and unsat(ev, outer + [b, tm.not_(a)])):
                return False
        outer.append(a)
    return True


_SAT = {}


def unsat(ev, forms):
    k = tuple(f.id for f in forms)
    r = _SAT.get(k)
    if r is None:
        ev._budget = 30000
        r = ev.sat(list(forms), {}) is False
        _SAT[k] = r
    return r


def resolve_indicators(A, d, gates, ev):
    """Set indicator atoms of d to 1/0 when the presence gates imply / refute their condition."""
    from epbd.order import psubst_all
    for aid in list(d.atoms()):
        a = A.atoms.get(aid)
        if a is None or a.kind != "ind":
            continue
        c = a.parts[0]
        if unsat(ev, gates + [tm.not_(c)]):
            d = psubst_all(d, aid, alg.const(1))
            continue
        if unsat(ev, gates + [c]):
            d = psubst_all(d, aid, alg.const(0))
    return d


def option_parts(t):
    """(is_some condition, payload) of an Option-valued term."""
    from epbd.models import opt_is_some, opt_val
    return opt_is_some(t), opt_val(t)


def annual_is_sum(A, bc, both):
    """epus_an = Σ_t epus_t and the per-source annual values are the sums of their per-step vectors."""
    from .c12 import entry
    try:
        ok = A.assume_conditions(A.scalar(get(bc, "prod", "epus_an")), both) == \
            A.assume_conditions(A.sumt(A.pw(get(bc, "prod", "epus_t"))), both)
        for src in ("EL_INSITU", "EL_COGEN"):
            _, an = entry(get(bc, "prod", "epus_by_src_an"), src)
            _, t = entry(get(bc, "prod", "epus_by_src_t"), src)
            ok = ok and A.assume_conditions(A.scalar(an), both) == A.assume_conditions(A.sumt(A.pw(t)), both)
        return ok
    except (alg.NotScalar, AttributeError):
        return False


def by_source_priority(ctx, rep):
    """Breakdown by source where sources have priorities (electricity with on-site and cogenerated
    production): the per-source used production adds up to the total, per step and over the year, in
    both load-matching modes.  (The proportional branch is not decided: below the documented 1e-3
    production threshold it deliberately assigns nothing.)"""
    from .c12 import entry
    for lm in (False, True):
        e = epmodel.ep(ctx, lm)
        where = loc_of(e.body)
        A = alg.Algebra()
        l1_t = False
        bc = [x for x in e.carriers() if x[1] == "ELECTRICIDAD"][0][3]
        pI, _PI = entry(get(bc, "prod", "by_src_t"), "EL_INSITU")
        pC, _PC = entry(get(bc, "prod", "by_src_t"), "EL_COGEN")
        both = [pI, pC]
        # L1 (hand-proved, a, p1, p2 >= 0): min(a, p1 + p2) = min(p1, a) + min(p2, a - min(p1, a)); so a total
        # written as f*min(use, P_insitu + P_cogen) is accepted when the parts are f*u1 and f*u2
        use = A.pw(get(bc, "used", "epus_t"))
        f = A.pw(get(bc, "f_match"))
        p1, p2 = A.pw(_PI), A.pw(_PC)
        u1 = A.pmin(p1, use)
        u2 = A.pmin(p2, alg.padd(use, u1, -1))
        for suffix, lift in (("_t", A.pw), ("_an", A.scalar)):
            try:
                _, eI = entry(get(bc, "prod", "epus_by_src" + suffix), "EL_INSITU")
                _, eC = entry(get(bc, "prod", "epus_by_src" + suffix), "EL_COGEN")
                parts = alg.padd(A.assume_conditions(lift(eI), both), A.assume_conditions(lift(eC), both))
                tot = A.assume_conditions(lift(get(bc, "prod", "epus" + suffix)), both)
            except alg.NotScalar as ex:
                rep.underivable("C04/bysrc/priority/epus%s/lm=%d" % (suffix, lm), "used production = Σ over sources of the used parts",
                                construct=where, why=str(ex))
                continue
            key = "C04/bysrc/priority/epus%s/lm=%d" % (suffix, lm)
            ok_l1 = False
            if suffix == "_t":
                gI = A.assume_conditions(lift(eI), both)
                gC = A.assume_conditions(lift(eC), both)
                ptot = A.pw(get(bc, "prod", "t"))      # = p1 + p2 by C01/O8
                ok_l1 = (tot in (alg.pmul(f, A.pmin(use, alg.padd(p1, p2))), A.assume_conditions(alg.pmul(f, A.pmin(use, ptot)), both), A.assume_conditions(alg.pmul(f, A.pmin(ptot, use)), both))
                         and gI == alg.pmul(f, u1) and gC == alg.pmul(f, u2))
                l1_t = ok_l1
            else:
                ok_l1 = l1_t and annual_is_sum(A, bc, both)
            if tot == parts or ok_l1:
                rep.discharged(key, "with both electricity sources present, used production = on-site part + cogenerated part",
                               derivation="normal forms equal under [both sources present]")
            else:
                rep.violated(key, "the by-source breakdown of the produced energy used on site adds up to the total", construct=where,
                             why="total - Σ parts = %s" % A.show(alg.padd(tot, parts, -1), 3)[:400])


def by_service_by_source(ctx, rep, prefix="C04/bysrv-bysrc", only_carrier=None, only_service=None, floor=20):
    """Produced energy used on site, by source and by service: each per-step value is the used production of
    that source times the share of the service in the EPB use of that step (0 where there is no use);
    the annual value is its sum over the steps.  This is the quantity the DHW indicator reads."""
    n = 0
    for lm in (False, True):
        e = epmodel.ep(ctx, lm)
        where = loc_of(e.body)
        A = alg.Algebra()
        for (ci, cname, pres, bc) in e.carriers():
            if pres is tm.FALSE or (only_carrier and cname != only_carrier):
                continue
            try:
                m_t = get(bc, "prod", "epus_by_srv_by_src_t")
                m_an = get(bc, "prod", "epus_by_srv_by_src_an")
                by_src = dict((nm, v) for nm, p, v in emap_items(get(bc, "prod", "epus_by_src_t")) if p is not tm.FALSE)
                by_srv = dict((nm, v) for nm, p, v in emap_items(get(bc, "used", "epus_by_srv_t")) if p is not tm.FALSE)
                use = A.pw(get(bc, "used", "epus_t"))
            except AnchorMissing as ex:
                rep.violated("%s/anchor/%s" % (prefix, cname), "prod.epus_by_srv_by_src_t is a map source -> service -> per-step values",
                             construct=where, why=str(ex))
                continue
            an = dict((sn, dict((vn, (vv, [sp, vp])) for vn, vp, vv in emap_items(sv) if vp is not tm.FALSE))
                      for sn, sp, sv in emap_items(m_an) if sp is not tm.FALSE and sv.op == "emap")
            for sn, sp, sv in emap_items(m_t):
                if sp is tm.FALSE or sv.op != "emap" or sn not in by_src:
                    continue
                for vn, vp, vv in emap_items(sv):
                    if vp is tm.FALSE or vn not in by_srv or (only_service and vn != only_service):
                        continue
                    n += 1
                    key = "%s/%s/%s/%s/lm=%d" % (prefix, cname, sn, vn, lm)
                    try:
                        got = A.pw(vv)
                        base = alg.pmul(alg.pmul(A.pw(by_src[sn]), A.pw(by_srv[vn])), A.inv(use))
                    except alg.NotScalar as ex:
                        rep.underivable(key, "used production by source and service is numeric", construct=where, why=str(ex))
                        continue
                    # the share is taken only where there is use: [0 < use]
                    ok = (got == base)
                    if not ok:
                        for aid in got.atoms():
                            a2 = A.atoms[aid]
                            if a2.kind == "ind":
                                ck = a2.parts[1]
                                if isinstance(ck, tuple) and ck[0] == "lt0" and A.poly_of_pid(ck[1]) == alg.pscale(use, -1):
                                    if got == alg.pmul(alg.Poly({((a2.id, 1),): 1}), base):
                                        ok = True
                    ok_an = True
                    if sn in an and vn in an[sn]:
                        try:
                            # where the entry is present the annual value is literally Σ_t of the per-step entry
                            sub = {}
                            for c in an[sn][vn][1] + [sp, vp]:
                                for cj in (c.a if c.op == "and" else (c,)):
                                    sub[cj] = tm.TRUE
                            red = tm.subst(an[sn][vn][0], sub)
                            got_p = A.pw(tm.subst(vv, sub))
                            ok_an = (red.op == "sum" and red.a[0].op == "iter" and A.pw(red.a[0].a[0]) == got_p) or \
                                A.scalar(red) == A.sumt(got_p)
                        except alg.NotScalar:
                            ok_an = False
                    if ok and ok_an:
                        rep.discharged(key, "used production of %s going to %s = used production of the source x share of the service in the use of that step; annual = Σ_t"
                                       % (sn, vn))
                    else:
                        rep.violated(key, "produced energy used on site is split among services by their share of the EPB use, step by step",
                                     construct=where, why=("per-step value differs from used_by_source x use_by_service / use: %s" % A.show(alg.padd(got, base, -1), 3)[:300])
                                     if not ok else "annual value is not the sum of the per-step values")
    rep.floor("by-service-by-source", n, floor)
