"""C06 All declared auxiliary electricity is counted once, for the right services (DESIGN §5/C06)."""
from epbd import term as tm, alg, api
from epbd.sym import _filters_of
from .common import loc_of, AnchorMissing
from . import c05, c08
from .c05 import comp


def find_ops(t, op):
    return [x for x in tm.subterms(t) if x.op == op]


def run(ctx, rep):
    rep.rule = ("one iteration of the per-system reassignment loop as a transformation of the component list: A1 removal "
                "predicates evaluated on class representatives (same/other id); A2 single-service branch is the identity "
                "outside Aux of that id; A3 new Aux = output share x declared total of that id, shares sum to 1 where the total "
                "output is positive (R4 by cancellation); A4 sibling predicates: what is_epb_use accepts is balanced")
    rep.explanation = ("Conservation of auxiliary energy is per system and per step; which components are removed, summed and "
                       "re-created is decided for symbolic system ids, so arrangements of several systems are covered.")
    rep.assumptions = ["A2 real arithmetic", "not decided: numeric equality of reassigned and declared values"]
    lib = ctx.lib
    body = ctx.find_public_fn(lib, "Components::normalize")
    where = loc_of(body)
    ev, r, args = ctx.eval_entry("lib", body)
    # the loop whose element is a system id and whose state is the component list with Aux handling
    target = None
    for uid, info in ev.loops_info.items():
        for s, n in info["general"]:
            if any(x.op == "retain" for x in tm.subterms(n)) or any(x.op == "map_inplace" for x in tm.subterms(n)):
                target = (info, s, n)
    if target is None:
        rep.violated("C06/anchor", "auxiliary reassignment is a per-system transformation of the component list",
                     construct=where, why="no loop over system ids rewriting the list was found")
        return
    info, D, n = target
    idv = info["elem"]
    X = tm.sym("cls:otherid")
    reps = {"aux-same": comp("Aux", idv, service="NEPB"), "aux-other": comp("Aux", X, service="NEPB"),
            "used-same": comp("Used", idv, carrier="ELECTRICIDAD"), "prod-same": comp("Prod", idv, source="EL_INSITU"),
            "out-same": comp("Out", idv)}
    # A0: the systems visited are exactly those with auxiliary components (whatever their other fields)
    src = info["iter"]
    base = src.a[0] if src.op in ("iter", "into_iter") else src
    okset = base.op == "collect_set"
    preds = []
    cur = base.a[0] if okset else base
    while cur.op in ("map", "filter", "cloned", "copied"):
        if cur.op == "filter":
            preds.append(cur.a[1])
        cur = cur.a[0]
    sel = dict((k, tm.and_(*[tm.apply_lam(p, [c]) for p in preds]) if preds else tm.TRUE) for k, c in reps.items())
    ok0 = okset and preds and sel["aux-same"] is tm.TRUE and sel["aux-other"] is tm.TRUE and \
        all(sel[k] is tm.FALSE for k in ("used-same", "prod-same", "out-same"))
    if ok0:
        rep.discharged("C06/A0/systems", "every system with an auxiliary component is visited once, and only those")
    else:
        rep.violated("C06/A0/systems", "every auxiliary component (whatever its comment, values or service) takes part in the reassignment of its system",
                     construct=where, why="ids iterated: set=%s; selection on class representatives: %s" %
                     (okset, "; ".join("%s:%s" % (k, tm.show(v, 3)[:60]) for k, v in sel.items())))
    # A1
    rets = find_ops(n, "retain")
    if not rets:
        rep.violated("C06/A1/present", "existing Aux components of the system are replaced", construct=where)
    for i, rt in enumerate(rets):
        res = dict((k, tm.apply_lam(rt.a[1], [c])) for k, c in reps.items())
        other = res["aux-other"]
        ok = res["aux-same"] is tm.FALSE and res["used-same"] is tm.TRUE and res["prod-same"] is tm.TRUE \
            and res["out-same"] is tm.TRUE and other is not tm.FALSE and tm.subst(other, {X: tm.sym("cls:third")}) is not tm.FALSE \
            and (other is tm.TRUE or tm.subst(other, {X: idv}) is tm.FALSE)
        key = "C06/A1/retain/%d" % i
        if ok:
            rep.discharged(key, "only the auxiliary components of the current system are removed")
        else:
            rep.violated(key, "other systems' auxiliaries (and every non-auxiliary component) are untouched by the replacement",
                         construct=where, why="; ".join("%s kept:%s" % (k, tm.show(v, 2)[:30]) for k, v in res.items()))
    # A2
    maps = find_ops(n, "map_inplace")
    for i, mp in enumerate(maps):
        lam = mp.a[1]
        key = "C06/A2/map/%d" % i
        same = tm.apply_lam(lam, [reps["aux-same"]])
        ok = all(tm.apply_lam(lam, [reps[k]]) is reps[k] for k in ("used-same", "prod-same", "out-same"))
        oth = tm.apply_lam(lam, [reps["aux-other"]])
        ok = ok and (oth is reps["aux-other"] or tm.subst(oth, {tm.eq(X, idv): tm.FALSE}) is reps["aux-other"])
        changed = [f for f in ("id", "values", "comment") if tm.getf(same.a[2], "EAux", f) is not tm.getf(reps["aux-same"].a[2], "EAux", f)] \
            if same.op == "adt" else ["?"]
        if ok and not changed and same.op == "adt":
            rep.discharged(key, "single-service systems: only the service tag of that system's Aux changes")
        else:
            rep.violated(key, "assigning the single service changes nothing but the service of that system's auxiliaries",
                         construct=where, why="fields changed on the system's Aux: %s; others untouched: %s" % (changed, ok))
    if not maps:
        rep.violated("C06/A2/present", "a system serving one service gets all its auxiliary energy on that service", construct=where)
    # A3: every re-created Aux = aux_tot * q_s / Σ_s q_s  (where Σ_s q_s > 0)
    pushes = [p for p in find_ops(n, "push") if p.a[1].op == "adt" and p.a[1].a[0] == "Energy"
              and tm.variant_name("Energy", p.a[1].a[1]) == "Aux"]
    A = alg.Algebra()
    seen_services = {}
    for p in pushes:
        recd = p.a[1].a[2]
        srv = tm.getf(recd, "EAux", "service")
        if srv.op == "adt" and srv.id not in seen_services:
            seen_services[srv.id] = (tm.variant_name("Service", srv.a[1]), recd)
    shares_ok = 0
    denominators = set()
    guard = None
    for sid, (sname, recd) in sorted(seen_services.items()):
        key = "C06/A3/%s" % sname
        if tm.getf(recd, "EAux", "id") is not idv:
            rep.violated(key + "/id", "the re-created auxiliary component belongs to the same system", construct=where)
            continue
        vals = tm.getf(recd, "EAux", "values")
        conds = [t.a[0] for t in tm.subterms(vals) if t.op == "ite" and t.a[0].op == "any"]
        try:
            pv = A.assume_conditions(A.pw(vals), conds)
        except alg.NotScalar as ex:
            rep.underivable(key + "/share", "share of the auxiliary energy is point-wise", construct=where, why=str(ex))
            continue
        why = share_shape(A, pv, reps, X, idv, sname)
        if isinstance(why, tuple):
            shares_ok += 1
            denominators.add(why[0])
            guard = why[1]
            rep.discharged(key + "/share", "Aux for %s = declared auxiliaries of the system x output for %s / total output" % (sname, sname))
        else:
            rep.violated(key + "/share", "auxiliary energy is shared in proportion to the energy delivered or absorbed per service",
                         construct=where, why=why)
    if shares_ok >= 1 and len(denominators) == 1:
        # the share is applied exactly where the total output is positive: the guard is `0 < total output`, not another
        # quantity (division by a zero total) and not another threshold (auxiliaries lost below it)
        den_id = list(denominators)[0]
        Q = A.atoms[den_id].parts[0]
        ok_guard = False
        why_g = "no guard on the total output was found"
        if guard is not None and isinstance(guard.parts[1], tuple) and guard.parts[1][0] == "lt0":
            gp = A.poly_of_pid(guard.parts[1][1])
            ok_guard = gp == alg.pscale(Q, -1)
            why_g = "the guard is [%s < 0] while the divisor is %s" % (A.show(gp, 2)[:160], A.show(Q, 2)[:160])
        if ok_guard:
            rep.discharged("C06/A3/guard", "the shares are taken wherever the total output is positive (guard `0 < total output` on the divisor itself)")
        else:
            rep.violated("C06/A3/guard", "auxiliary energy is shared wherever the system delivers energy: the division is guarded by "
                         "`total output > 0` and by nothing else", construct=where, why=why_g)
    if shares_ok >= 5 and len(denominators) == 1:
        rep.discharged("C06/A3/conservation", "shares of all services use one common total output: they add up to the declared "
                       "auxiliary energy wherever that total is positive (R4)", derivation="%d services" % shares_ok)
        rep.underivable("C06/A3/zero-output-steps", "auxiliary energy is conserved at every step, with non-negative shares",
                        construct=where,
                        why="share = output_s/total_output with signed outputs, guarded by [total output > 0]: a step with "
                            "auxiliaries but zero (or cancelling heating/cooling) total output loses them, and mixed signs give "
                            "negative shares")
    else:
        rep.violated("C06/A3/conservation", "the per-service shares add up to the declared auxiliary energy", construct=where,
                     why="%d recognised shares, %d distinct denominators" % (shares_ok, len(denominators)))
    # A4 sibling predicates
    epb = ctx.find_public_fn(lib, "Energy::is_epb_use")
    ac = ctx.find_public_fn(lib, "Components::available_carriers")
    evc, rc, ac_args = ctx.eval_entry("lib", ac)
    data = tm.proj(ac_args[0], 0, 1, "data")
    el = [i for i, (nme, _f) in tm.ADT_NAMES["Carrier"].items() if nme == "ELECTRICIDAD"][0]
    pres_el = rc.a[1 + el] if rc.op == "eset" else None
    for name, c in (("Aux/CAL", comp("Aux", tm.sym("cls:i"), service="CAL")),
                    ("Used/CAL/ELECTRICIDAD", comp("Used", tm.sym("cls:i"), carrier="ELECTRICIDAD", service="CAL"))):
        _e, is_epb, _a = ctx.eval_entry("lib", epb, args=[c])
        key = "C06/A4/%s" % name
        if pres_el is None:
            rep.underivable(key, "available carriers is a finite set over Carrier", construct=loc_of(ac))
            continue
        balanced = c08.eval_under(pres_el, data, [c])
        if is_epb is tm.TRUE and balanced is not tm.TRUE:
            rep.violated(key, "what counts as EPB electricity use is balanced even when it is the only electricity component",
                         construct=loc_of(ac), why="is_epb_use(%s) is true but a building with only that component has no ELECTRICIDAD balance" % name)
        else:
            rep.discharged(key, "%s: EPB use => the carrier is balanced" % name)
    # A5 every AUX line that is read - also the re-created ones of a saved file - reaches the reassignment: the parser
    # appends one component per line and takes none away (C05/P1, re-stated)
    from .common import Report
    sub5 = Report("C05")
    c05.run(ctx, sub5)
    p1 = [o for o in sub5.obligations if o.key.startswith("C05/P1/")]
    if len(p1) < 3:
        rep.violated("C06/A5/anchor", "the parser is analysable", why="%d C05/P1 obligations" % len(p1))
    for o in p1:
        k = "C06/A5/" + o.key[len("C05/P1/"):]
        if o.status == "discharged":
            rep.discharged(k, "declared auxiliary lines all become components: " + o.clause, nontrivial=False)
        else:
            rep.violated(k, "every declared AUX line is counted (none is dropped while reading)", construct=o.construct, why=o.why)
    rep.analysed = {"retains": len(rets), "single_service_maps": len(maps), "service_pushes": len(seen_services)}
    rep.floor("service-pushes", len(seen_services), 5)


def selects_aux_of_id(t, reps, X, idv):
    fl = []
    for x in tm.subterms(t):
        if x.op in ("filter", "filter_map"):
            fl.append(x)
    if t.op == "vsumover":
        fs = _filters_of(t.a[0])
        if not fs:
            return False
        sel = lambda c: tm.and_(*[tm.apply_lam(f, [c]) for f in fs])
        return sel(reps["aux-same"]) is tm.TRUE and sel(reps["used-same"]) is tm.FALSE
    for x in fl:
        if x.op == "filter_map":
            o = tm.apply_lam(x.a[1], [reps["aux-same"]])
            o2 = tm.apply_lam(x.a[1], [reps["aux-other"]])
            o3 = tm.apply_lam(x.a[1], [reps["used-same"]])
            some = lambda v: tm.isvar(v, "Option", 1)
            if some(o) is tm.TRUE and some(o3) is tm.FALSE and some(o2) is not tm.TRUE:
                return True
    return False


def share_shape(A, pv, reps, X, idv, sname):
    """pv must be one monomial  q_s * aux_tot * Q^-1 * [0 < Q]  with Q = Σ_services [present]*q.
    Returns (denominator atom id, guard atom) or a reason string."""
    if len(pv.m) != 1:
        return "share is not a single product: %s" % A.show(pv, 2, limit=3)[:300]
    (mono, c), = pv.m.items()
    if c != 1:
        return "coefficient %s" % c
    num, den, inds = [], [], []
    for aid, pw in mono:
        a = A.atoms[aid]
        if a.kind == "poly" and pw == -1:
            den.append(a)
        elif a.kind == "ind" and pw == 1:
            inds.append(a)
        elif a.kind == "elt" and pw == 1:
            num.append(a)
        else:
            return "unexpected factor %s^%d" % (A.show_atom(a, 2)[:80], pw)
    if len(den) != 1 or len(num) != 2:
        return "expected output * auxiliaries / total output, got %d numerator factors and %d denominators" % (len(num), len(den))
    Q = den[0].parts[0]
    # the denominator is the sum over services of present outputs, and contains this service's output
    out_atoms = [a for a in num if a.term is not None and a.term.op == "vsumover"]
    if not out_atoms:
        return "no per-service output sum in the numerator"
    q = out_atoms[0]
    inQ = any(any(aid == q.id for aid, _p in m) for m in Q.m)
    if not inQ:
        return "the total output in the denominator does not include the output for %s" % sname
    for m, cc in Q.m.items():
        kinds = sorted(A.atoms[aid].kind for aid, _p in m)
        if cc != 1 or kinds not in (["elt", "ind"], ["elt"]):
            return "total output is not a plain sum of per-service outputs"
    # the other numerator factor is the declared auxiliary total of this system
    aux = [a for a in num if a is not q]
    if not aux or not selects_aux_of_id(aux[0].term, reps, X, idv):
        return "the quantity shared is not the sum of the system's own AUX components"
    # the output sum selects SALIDA components of this system and service
    from epbd.sym import _filters_of
    fs = _filters_of(q.term.a[0])
    sel = lambda c: tm.and_(*[tm.apply_lam(f, [c]) for f in fs])
    o_same = sel(c05.comp("Out", idv, service=sname))
    o_other_id = sel(c05.comp("Out", X, service=sname))
    o_other_srv = sel(c05.comp("Out", idv, service="CAL" if sname != "CAL" else "ACS"))
    if not (o_same is tm.TRUE and o_other_srv is tm.FALSE and o_other_id is not tm.TRUE):
        return "output for %s is not summed over SALIDA lines of this system and service only" % sname
    guards = [a for a in inds if isinstance(a.parts[1], tuple) and a.parts[1][0] == "lt0"]
    return (den[0].id, guards[0] if guards else None)
